(* C01/Model.v — the OBSERVER of property C01: a normaliser on token streams.
   C01 is checked by translation validation: every formatting run's (input, output) pair is lexed by
   rustc_lexer (harness/src/pool.rs:11 lex) and the two token streams must have the same normal form.
   This file is the Gallina port, function by function, of the executable reference
   /verif/checks/tokens.py (each definition names the python function it ports and its line).
   rustfmt sources whose style freedoms the normalisations mirror:
     src/expr.rs:rewrite_paren (remove_nested_parens), src/lists.rs:SeparatorTactic (trailing separators),
     src/matches.rs:rewrite_match_body / flatten_arm_body (arm bodies, leading pipes, arm commas),
     src/closures.rs:rewrite_closure (closure bodies), src/items.rs:format_extern / rewrite_generics /
     rewrite_where_clause, src/utils.rs:format_visibility (pub(in ..)), src/macros.rs:rewrite_macro_inner
     (delimiter of vec!-like calls) and MacroParser (macro_rules arms), src/reorder.rs, src/imports.rs
     (import regrouping), src/attr.rs:merge_derives, src/comment.rs (doc comments), src/string.rs,
     src/expr.rs:rewrite_literal (hex_literal_case, float_literal_trailing_zero).
   Definitions only; proofs are in Lemmas.v. *)
From Coq Require Import String Ascii.
From Coq Require Import Permutation.
From V Require Import Base.Text.
Open Scope string_scope.
Open Scope N_scope.
Open Scope list_scope.

(* ------------------------------------------------------------------ *)
(* text constants: ASCII Coq strings as texts *)
Definition T (s : string) : text := map N_of_ascii (list_ascii_of_string s).

Definition s_semi : text := Eval compute in T ";".
Definition s_comma : text := Eval compute in T ",".
Definition s_colon : text := Eval compute in T ":".
Definition s_coloncolon : text := Eval compute in T "::".
Definition s_arrow : text := Eval compute in T "->".
Definition s_fatarrow : text := Eval compute in T "=>".
Definition s_lt : text := Eval compute in T "<".
Definition s_gt : text := Eval compute in T ">".
Definition s_eq : text := Eval compute in T "=".
Definition s_bang : text := Eval compute in T "!".
Definition s_quest : text := Eval compute in T "?".
Definition s_dollar : text := Eval compute in T "$".
Definition s_hash : text := Eval compute in T "#".
Definition s_pipe : text := Eval compute in T "|".
Definition s_dot : text := Eval compute in T ".".
Definition s_star : text := Eval compute in T "*".
Definition s_minus : text := Eval compute in T "-".
Definition s_lparen : text := Eval compute in T "(".
Definition s_rparen : text := Eval compute in T ")".
Definition s_lbrack : text := Eval compute in T "[".
Definition s_rbrack : text := Eval compute in T "]".
Definition s_lbrace : text := Eval compute in T "{".
Definition s_rbrace : text := Eval compute in T "}".
Definition s_andand : text := Eval compute in T "&&".
Definition s_oror : text := Eval compute in T "||".
Definition s_where : text := Eval compute in T "where".
Definition s_for : text := Eval compute in T "for".
Definition s_extern : text := Eval compute in T "extern".
Definition s_crate : text := Eval compute in T "crate".
Definition s_self : text := Eval compute in T "self".
Definition s_Self : text := Eval compute in T "Self".
Definition s_super : text := Eval compute in T "super".
Definition s_fn : text := Eval compute in T "fn".
Definition s_pub : text := Eval compute in T "pub".
Definition s_in : text := Eval compute in T "in".
Definition s_use : text := Eval compute in T "use".
Definition s_mod : text := Eval compute in T "mod".
Definition s_as : text := Eval compute in T "as".
Definition s_let : text := Eval compute in T "let".
Definition s_struct : text := Eval compute in T "struct".
Definition s_enum : text := Eval compute in T "enum".
Definition s_impl : text := Eval compute in T "impl".
Definition s_trait : text := Eval compute in T "trait".
Definition s_type : text := Eval compute in T "type".
Definition s_const : text := Eval compute in T "const".
Definition s_static : text := Eval compute in T "static".
Definition s_move : text := Eval compute in T "move".
Definition s_return : text := Eval compute in T "return".
Definition s_break : text := Eval compute in T "break".
Definition s_continue : text := Eval compute in T "continue".
Definition s_async : text := Eval compute in T "async".
Definition s_macro_rules : text := Eval compute in T "macro_rules".
Definition s_macro_use : text := Eval compute in T "macro_use".
Definition s_derive : text := Eval compute in T "derive".
Definition s_abiC : text := Eval compute in [34; 67; 34].        (* the three characters of the C ABI string literal *)
Definition s_DOC : text := Eval compute in T "DOC:".
Definition s_DOCdli : text := Eval compute in T "DOC:dli".
Definition s_DOCdbi : text := Eval compute in T "DOC:dbi".
Definition s_DOCdlo : text := Eval compute in T "DOC:dlo".
Definition s_DOCdbo : text := Eval compute in T "DOC:dbo".
Definition s_starslash : text := Eval compute in T "*/".
Definition s_0x : text := Eval compute in T "0x".
Definition s_sp_as_sp : text := Eval compute in T " as ".
Definition s_USE : text := Eval compute in T "USE[".
Definition s_ITEM : text := Eval compute in T "ITEM[".
Definition s_rb_lb : text := Eval compute in T "]{".
Definition s_semi_sp : text := Eval compute in T "; ".

(* tokens.py:11 KEYWORDS *)
Definition KEYWORDS : list text := Eval compute in map T
  ["as"; "break"; "const"; "continue"; "crate"; "else"; "enum"; "extern"; "false"; "fn"; "for"; "if"; "impl";
   "in"; "let"; "loop"; "match"; "mod"; "move"; "mut"; "pub"; "ref"; "return"; "self"; "Self"; "static";
   "struct"; "super"; "trait"; "true"; "type"; "unsafe"; "use"; "where"; "while"; "async"; "await"; "dyn";
   "abstract"; "become"; "box"; "do"; "final"; "macro"; "override"; "priv"; "typeof"; "unsized"; "virtual";
   "yield"; "try"; "union"; "raw"; "safe"; "gen"].

Fixpoint mem_text (t : text) (l : list text) : bool :=
  match l with
  | [] => false
  | x :: l' => eqb_text t x || mem_text t l'
  end.

(* ------------------------------------------------------------------ *)
(* small string functions (python str methods / the simple regexes of the prototype) *)

(* str.startswith *)
Fixpoint starts_with (p t : text) : bool :=
  match p, t with
  | [], _ => true
  | a :: p', b :: t' => (a =? b) && starts_with p' t'
  | _ :: _, [] => false
  end.

Definition is_digit (c : char) : bool := (48 <=? c) && (c <=? 57).
Definition is_upper (c : char) : bool := (65 <=? c) && (c <=? 90).
Definition is_lower (c : char) : bool := (97 <=? c) && (c <=? 122).
Definition is_alpha_ (c : char) : bool := is_upper c || is_lower c || (c =? 95).
Definition is_alnum_ (c : char) : bool := is_alpha_ c || is_digit c.
Definition is_digit_ (c : char) : bool := is_digit c || (c =? 95).
Definition is_hex_ (c : char) : bool :=
  is_digit c || ((97 <=? c) && (c <=? 102)) || ((65 <=? c) && (c <=? 70)) || (c =? 95).
(* str.lower on ASCII (only ever applied to hex digits) *)
Definition lower_ascii (c : char) : char := if is_upper c then c + 32 else c.

(* python str.isspace (str.strip() with no argument strips these) *)
Definition py_isspace (c : char) : bool := is_whitespace c || ((28 <=? c) && (c <=? 31)).

Fixpoint drop_while (p : char -> bool) (t : text) : text :=
  match t with
  | c :: t' => if p c then drop_while p t' else t
  | [] => []
  end.
(* the maximal prefix satisfying p, and the rest *)
Fixpoint span (p : char -> bool) (t : text) : text * text :=
  match t with
  | c :: t' => if p c then let (a, b) := span p t' in (c :: a, b) else ([], t)
  | [] => ([], [])
  end.
Definition rstrip_by (p : char -> bool) (t : text) : text := rev (drop_while p (rev t)).
Definition py_rstrip (t : text) : text := rstrip_by py_isspace t.
Definition py_strip (t : text) : text := py_rstrip (drop_while py_isspace t).

(* str.replace of CR LF by LF *)
Fixpoint crlf_to_lf (t : text) : text :=
  match t with
  | c :: t' =>
      match t' with
      | d :: t'' => if is_cr c && is_lf d then LF :: crlf_to_lf t'' else c :: crlf_to_lf t'
      | [] => [c]
      end
  | [] => []
  end.

(* str.split(LF): at least one piece *)
Fixpoint split_lf_aux (cur : text) (t : text) : list text :=
  match t with
  | [] => [rev cur]
  | c :: t' => if is_lf c then rev cur :: split_lf_aux [] t' else split_lf_aux (c :: cur) t'
  end.
Definition split_lf (t : text) : list text := split_lf_aux [] t.

(* sep.join *)
Fixpoint join (sep : text) (l : list text) : text :=
  match l with
  | [] => []
  | [x] => x
  | x :: l' => x ++ sep ++ join sep l'
  end.

(* dot-star-dollar of python re: no LF, except that dollar also matches before one final LF *)
Fixpoint dotstar_dollar (t : text) : bool :=
  match t with
  | [] => true
  | c :: t' => if is_lf c then match t' with [] => true | _ => false end else dotstar_dollar t'
  end.

(* `$`: end of text, or one final LF *)
Definition at_dollar (t : text) : bool :=
  match t with [] => true | [c] => is_lf c | _ => false end.

(* tokens.py:105 is_ident, on a string:  ^(r#)?[A-Za-z_][A-Za-z0-9_]*$ *)
Fixpoint ident_tail (t : text) : bool :=
  match t with
  | [] => true
  | c :: t' => if is_alnum_ c then ident_tail t' else at_dollar t
  end.
Definition ident_plain (t : text) : bool :=
  match t with
  | c :: t' => is_alpha_ c && ident_tail t'
  | [] => false
  end.
Definition is_ident_text (t : text) : bool :=
  match t with
  | 114 :: 35 :: t' => ident_plain t' || ident_plain t
  | _ => ident_plain t
  end.

(* ^[0-9] *)
Definition starts_with_digit (t : text) : bool :=
  match t with c :: _ => is_digit c | [] => false end.

(* regex: optional r followed by any number of hashes, then a double quote: a (raw) string literal *)
Definition starts_str_lit (t : text) : bool :=
  match t with
  | 34 :: _ => true
  | 114 :: t' => match drop_while (fun c => c =? 35) t' with 34 :: _ => true | _ => false end
  | _ => false
  end.

(* ------------------------------------------------------------------ *)
(* lexical tokens (harness/src/pool.rs:8-52) *)
Inductive litkind := LInt | LFloat | LChar | LByte | LStr | LBStr | LCStr | LRStr | LRBStr | LRCStr.
Inductive kind :=
| Kws | Klc | Kbc | Kshebang                 (* layout and non-doc comments *)
| Kdlo | Kdli | Kdbo | Kdbi                  (* doc comments: line outer/inner, block outer/inner *)
| Kid | Krid | Klt | Klit (l : litkind) | Kp | Kunk.
Definition tok : Type := kind * text.

(* the options the prototype reads; each field says which test of tokens.py it stands for *)
Record opts := mkOpts {
  o_remove_nested_parens : bool;     (* opts.get(remove_nested_parens, true) == true *)
  o_force_explicit_abi : bool;       (* carried for the record; never read (both spellings are canonicalised) *)
  o_hex_case : bool;                 (* hex_literal_case != Preserve *)
  o_float_zero : bool;               (* float_literal_trailing_zero != Preserve *)
  o_merge_derives : bool;            (* opts.get(merge_derives, true) == true *)
  o_edition2015 : bool;              (* opts.get(edition, 2015) == 2015 *)
  o_macro_def : bool                 (* the internal flag _macro_def *)
}.
Definition set_macro_def (o : opts) : opts :=
  mkOpts (o_remove_nested_parens o) (o_force_explicit_abi o) (o_hex_case o) (o_float_zero o)
         (o_merge_derives o) (o_edition2015 o) true.

(* tokens.py:27 significant *)
Definition is_trivia (k : kind) : bool :=
  match k with Kws | Klc | Kbc | Kshebang => true | _ => false end.
Definition significant (ts : list tok) : list tok := filter (fun t => negb (is_trivia (fst t))) ts.

(* tokens.py:36 doc_norm *)
Definition doc_kind_name (k : kind) : text :=
  match k with
  | Kdlo => T "dlo" | Kdli => T "dli" | Kdbo => T "dbo" | Kdbi => T "dbi" | _ => []
  end.
Definition doc_block_line (first : bool) (l : text) : text :=
  let s := py_strip l in
  if negb first && starts_with s_star s && negb (starts_with s_starslash s) then py_strip (tl s) else s.
Definition doc_block_lines (ls : list text) : list text :=
  match ls with
  | [] => []
  | l :: ls' => doc_block_line true l :: map (doc_block_line false) ls'
  end.
Definition doc_norm (k : kind) (t : text) : text :=
  let lines := split_lf (crlf_to_lf t) in
  let body := match k with
              | Kdbo | Kdbi => doc_block_lines lines
              | _ => map py_rstrip lines
              end in
  s_DOC ++ doc_kind_name k ++ s_colon ++ join [LF] body.

(* tokens.py:59 lit_norm *)
(* re.sub of  BACKSLASH CR? LF [ TAB CR LF]*  by nothing *)
Definition is_cont_blank (c : char) : bool := (c =? 32) || (c =? 9) || (c =? 13) || (c =? 10).
Fixpoint str_cont (skip : bool) (t : text) : text :=
  match t with
  | [] => []
  | c :: t' =>
      if skip && is_cont_blank c then str_cont true t'
      else if c =? 92 then
        match t' with
        | 10 :: t'' => str_cont true t''
        | 13 :: 10 :: t'' => str_cont true t''
        | _ => c :: str_cont false t'
        end
      else c :: str_cont false t'
  end.
(* regex: 0x, a non-empty run of [0-9a-fA-F_], then anything up to the end: lower-case the run *)
Definition hex_lower (t : text) : text :=
  match t with
  | 48 :: 120 :: t' =>
      let (h, r) := span is_hex_ t' in
      match h with
      | [] => t
      | _ => if dotstar_dollar r then s_0x ++ map lower_ascii h ++ r else t
      end
  | _ => t
  end.
(* regex: [0-9_]+, optionally a dot and [0-9_]*, an optional exponent, the rest: strip trailing 0 and _ of
   the fraction (exponent and rest are re-emitted unchanged, so only their concatenation matters) *)
Definition float_strip (t : text) : text :=
  let (a, r) := span is_digit_ t in
  match a with
  | [] => t
  | _ =>
      let '(frac, r') := match r with
                         | 46 :: r1 => span is_digit_ r1
                         | _ => ([], r)
                         end in
      if dotstar_dollar r' then
        let f := rstrip_by (fun c => (c =? 48) || (c =? 95)) frac in
        a ++ (match f with [] => [] | _ => 46 :: f end) ++ r'
      else t
  end.
Definition lit_norm (o : opts) (l : litkind) (t : text) : text :=
  match l with
  | LStr | LBStr | LCStr => str_cont false t
  | LInt => if o_hex_case o then hex_lower t else t
  | LFloat => if o_float_zero o then float_strip t else t
  | _ => t
  end.

(* tokens.py:50 atom *)
Definition atom (o : opts) (k : kind) (t : text) : text :=
  let t' := crlf_to_lf t in
  match k with
  | Kdlo | Kdli | Kdbo | Kdbi => doc_norm k t'
  | Klit l => lit_norm o l t'
  | _ => t'
  end.

(* ------------------------------------------------------------------ *)
(* token trees (tokens.py:18 class G) *)
Inductive delim := DParen | DBrack | DBrace.
Inductive item :=
| Tok (s : text)
| Grp (d : delim) (items : list item).

Definition delim_eqb (a b : delim) : bool :=
  match a, b with DParen, DParen | DBrack, DBrack | DBrace, DBrace => true | _, _ => false end.
Definition open_text (d : delim) : text :=
  match d with DParen => s_lparen | DBrack => s_lbrack | DBrace => s_lbrace end.
Definition close_text (d : delim) : text :=
  match d with DParen => s_rparen | DBrack => s_rbrack | DBrace => s_rbrace end.
(* t in OPEN *)
Definition open_of (t : text) : option delim :=
  match t with
  | [40] => Some DParen | [91] => Some DBrack | [123] => Some DBrace | _ => None
  end.

(* tokens.py:101 is_tok, tokens.py:105 is_ident *)
Definition is_tok (x : item) (s : text) : bool :=
  match x with Tok t => eqb_text t s | Grp _ _ => false end.
Definition is_tok_o (x : option item) (s : text) : bool :=
  match x with Some y => is_tok y s | None => false end.
Definition is_ident (x : item) : bool :=
  match x with Tok t => is_ident_text t | Grp _ _ => false end.
Definition is_grp (x : item) (d : delim) : bool :=
  match x with Grp d' _ => delim_eqb d' d | Tok _ => false end.
Definition is_grp_o (x : option item) (d : delim) : bool :=
  match x with Some y => is_grp y d | None => false end.
(* x is a string belonging to l *)
Definition tok_in (x : item) (l : list text) : bool :=
  match x with Tok t => mem_text t l | Grp _ _ => false end.

(* tokens.py:76 tree.  cur: the items of the innermost open group, reversed; stack: for each open group its
   delimiter and the (reversed) items of the enclosing one.  The regex of the float case is
   digits dot digits dollar. *)
Definition float_split (t : text) : option (text * text) :=
  let (a, r) := span is_digit t in
  match a, r with
  | _ :: _, 46 :: b =>
      let (b1, r2) := span is_digit b in
      match b1 with
      | [] => None
      | _ => if at_dollar r2 then Some (a, b) else None
      end
  | _, _ => None
  end.

Definition tree_step (o : opts) (st : list item * list (delim * list item)) (kt : tok)
  : list item * list (delim * list item) :=
  let (cur, stack) := st in
  let (k, t) := kt in
  let plain := (Tok (match k with Kp => t | _ => atom o k t end) :: cur, stack) in
  match k with
  | Kp =>
      match open_of t with
      | Some d => ([], (d, cur) :: stack)
      | None =>
          match stack with
          | (d, parent) :: stack' =>
              if eqb_text (close_text d) t then (Grp d (rev cur) :: parent, stack') else plain
          | [] => plain
          end
      end
  | Klit LFloat =>
      match float_split t, cur with
      | Some (a, b), p1 :: more =>
          if is_tok p1 s_dot && negb (match more with p2 :: _ => is_tok p2 s_dot | [] => false end)
          then (Tok b :: Tok s_dot :: Tok a :: cur, stack) else plain
      | _, _ => plain
      end
  | _ => plain
  end.
Fixpoint tree_unwind (cur : list item) (stack : list (delim * list item)) : list item :=
  match stack with
  | [] => cur
  | (d, parent) :: stack' => tree_unwind (cur ++ Tok (open_text d) :: parent) stack'
  end.
Definition tree (o : opts) (toks : list tok) : list item :=
  let (cur, stack) := fold_left (tree_step o) toks ([], []) in
  rev (tree_unwind cur stack).

(* tokens.py:109 split_top (generic in the element type: also used on annotated items) *)
Fixpoint split_on {A : Type} (p : A -> bool) (cur : list A) (l : list A) : list (list A) :=
  match l with
  | [] => [rev cur]
  | x :: l' => if p x then rev cur :: split_on p [] l' else split_on p (x :: cur) l'
  end.
Definition split_top (items : list item) (sep : text) : list (list item) :=
  split_on (fun x => is_tok x sep) [] items.

(* tokens.py:121 call_like *)
Definition call_like (prev : option item) : bool :=
  match prev with
  | None => false
  | Some (Grp d _) => match d with DParen | DBrack => true | DBrace => false end
  | Some (Tok t) =>
      (is_ident_text t && negb (mem_text t KEYWORDS))
      || mem_text t [s_self; s_Self; s_super; s_crate; s_fn]
      || mem_text t [s_gt; s_quest; s_bang]
  end.

(* tokens.py angle_closes: the head of out is `>`; does it close generic arguments opened in the same statement?
   l: the items before it, nearest first.  An arrow still in two characters is skipped (norm_seq runs before glue) *)
Definition arrow_head (r : list item) : bool :=
  match r with y :: _ => is_tok y s_minus || is_tok y s_eq | [] => false end.
Fixpoint angle_scan (depth : nat) (l : list item) : bool :=
  match l with
  | [] => false
  | x :: r =>
      if is_tok x s_semi then false
      else if is_tok x s_gt then (if arrow_head r then angle_scan depth r else angle_scan (S depth) r)
      else if is_tok x s_lt then match depth with O => true | S d => angle_scan d r end
      else angle_scan depth r
  end.
Definition angle_closes (out : list item) : bool :=
  match out with
  | _ :: r => if arrow_head r then false else angle_scan O r
  | [] => false
  end.
(* tokens.py arg_like: is a `(` group that follows the items out (reversed: nearest first) an argument / parameter
   list rather than a parenthesised expression / pattern / type or a tuple?  call_like on the previous item, except
   that a `]` group which is an attribute and a `>` that closes nothing do not count *)
Definition arg_pos (out : list item) : bool :=
  match out with
  | [] => false
  | prev :: r =>
      if is_grp prev DBrack &&
         match r with
         | p2 :: r2 => is_tok p2 s_hash
                       || (is_tok p2 s_bang && match r2 with p3 :: _ => is_tok p3 s_hash | [] => false end)
         | [] => false
         end
      then false
      else if is_tok prev s_gt then angle_closes out
      else call_like (Some prev)
  end.

(* tokens.py:217 glue *)
Definition glue_pair (a b : text) : bool := mem_text (a ++ b) [s_coloncolon; s_arrow; s_fatarrow].
Fixpoint glue (seq : list item) : list item :=
  match seq with
  | [] => []
  | x :: tl =>
      match x, tl with
      | Tok a, Tok b :: rest => if glue_pair a b then Tok (a ++ b) :: glue rest else x :: glue tl
      | _, _ => x :: glue tl
      end
  end.

(* ------------------------------------------------------------------ *)
(* tokens.py:282 block_tails and the same test in tokens.py:414 trailing_seps *)
(* r: the items before the final `;`, reversed.  The first item of the last statement (items[j+1]). *)
Fixpoint last_stmt_first (r : list item) (acc : option item) : option item :=
  match r with
  | [] => acc
  | y :: r' => if is_tok y s_semi || is_grp y DBrace then acc else last_stmt_first r' (Some y)
  end.
Definition drops_tail_semi (items : list item) : bool :=
  match rev items with
  | y :: r =>
      is_tok y s_semi &&
      match last_stmt_first r None with
      | Some x => tok_in x [s_return; s_break; s_continue]
      | None => false
      end
  | [] => false
  end.
Definition block_tail (x : item) : item :=
  match x with
  | Grp DBrace items => if drops_tail_semi items then Grp DBrace (removelast items) else x
  | _ => x
  end.
Definition block_tails (seq : list item) : list item := map block_tail seq.

(* tokens.py:298 single_expr_block *)
Definition item_keywords : list text :=
  [s_let; s_fn; s_struct; s_enum; s_use; s_mod; s_impl; s_trait; s_type; s_const; s_static; s_macro_rules].
Definition single_expr_block (g : item) : bool :=
  match g with
  | Grp DBrace (first :: more) =>
      if existsb (fun x => is_tok x s_semi) (first :: more) then false
      else if is_tok first s_use && match more with y :: _ => is_tok y s_pipe | [] => false end then true
      else if is_tok first s_hash && match more with y :: _ => is_grp y DBrack | [] => false end then true
      else match first with
           | Tok t => negb (starts_with s_DOC t || eqb_text t s_hash || mem_text t item_keywords)
           | Grp _ _ => true
           end
  | _ => false
  end.

(* the loop  body = [x]; while len(body) == 1 and single_expr_block(body[0]): body = body[0].items *)
Fixpoint unwrap (x : item) : list item :=
  if single_expr_block x then
    match x with
    | Grp _ its => match its with [y] => unwrap y | _ => its end
    | Tok _ => [x]
    end
  else [x].

(* tokens.py:315 arms_and_closures, first loop: match arm bodies *)
Fixpoint arms (brace : bool) (seq : list item) : list item :=
  match seq with
  | [] => []
  | x :: rest =>
      match rest with
      | nxt :: rest2 =>
          if is_tok x s_fatarrow && brace && is_grp nxt DBrace then
            let rest3 := match rest2 with
                         | a :: r3 => if is_tok a s_comma then r3 else rest2
                         | [] => rest2
                         end in
            x :: unwrap nxt ++ (match rest3 with [] => [] | _ :: _ => [Tok s_comma] end) ++ arms brace rest3
          else x :: arms brace rest
      | [] => [x]
      end
  end.

(* second loop: closures.  starts_expr(prev) *)
Definition closure_prev : list text :=
  [s_eq; s_comma; s_lparen; s_move; s_return; s_fatarrow; s_colon; s_semi; s_async; s_static; s_andand; s_oror; s_bang].
Definition starts_expr (prev : option item) : bool :=
  match prev with
  | None => true
  | Some (Tok t) => mem_text t closure_prev || mem_text t KEYWORDS
  | Some (Grp _ _) => false
  end.
(* the scan for the closing pipe: (parameters reversed, what follows the closing pipe) *)
Fixpoint find_close (l : list item) (acc : list item) : option (list item * list item) :=
  match l with
  | [] => None
  | y :: l' =>
      if is_tok y s_pipe then Some (acc, l')
      else if is_tok y s_semi || is_tok y s_fatarrow then None
      else find_close l' (y :: acc)
  end.
(* fuel: every iteration consumes at least one item; closures_run gives S (length l).
   The in-place deletion `del out[close - 1]` survives a failed attempt: the scan resumes on the mutated list. *)
Fixpoint closures (fuel : nat) (res : list item) (l : list item) : list item :=
  match fuel with
  | O => rev res ++ l
  | S f =>
      match l with
      | [] => rev res
      | x :: rest =>
          if is_tok x s_pipe && starts_expr (hd_error res) then
            match find_close rest [] with
            | None => closures f (x :: res) rest
            | Some (params_rev, after) =>
                let params_rev' := match params_rev with
                                   | y :: p' => if is_tok y s_comma then p' else params_rev
                                   | [] => []
                                   end in
                match after with
                | b :: after' =>
                    if single_expr_block b && negb (existsb (fun t => is_tok t s_fatarrow) (x :: rev params_rev'))
                    then closures f (rev (unwrap b) ++ Tok s_pipe :: params_rev' ++ x :: res) after'
                    else closures f (x :: res) (rev params_rev' ++ Tok s_pipe :: after)
                | [] => closures f (x :: res) (rev params_rev' ++ [Tok s_pipe])
                end
            end
          else closures f (x :: res) rest
      end
  end.
Definition closures_run (l : list item) : list item := closures (S (length l)) [] l.

(* third loop: the leading pipe of a match arm pattern *)
Fixpoint arrow_before_comma (l : list item) : bool :=
  match l with
  | [] => false
  | y :: l' => if is_tok y s_comma then false else if is_tok y s_fatarrow then true else arrow_before_comma l'
  end.
Definition arm_start (final : list item) : bool :=
  match final with
  | [] => true
  | p :: f' => is_tok p s_comma || is_grp p DBrace
               || (is_grp p DBrack && match f' with q :: _ => is_tok q s_hash | [] => false end)
  end.
Fixpoint lead_pipes (brace : bool) (final : list item) (l : list item) : list item :=
  match l with
  | [] => rev final
  | x :: rest =>
      if is_tok x s_pipe && brace && arm_start final && arrow_before_comma rest
      then lead_pipes brace final rest
      else lead_pipes brace (x :: final) rest
  end.
(* last step: the comma after a block-bodied arm *)
Fixpoint drop_arm_commas (prev : option item) (l : list item) : list item :=
  match l with
  | [] => []
  | x :: r =>
      if is_tok x s_comma && is_grp_o prev DBrace then drop_arm_commas (Some x) r
      else x :: drop_arm_commas (Some x) r
  end.
Definition is_brace (ctx : option delim) : bool :=
  match ctx with Some DBrace => true | _ => false end.
Definition arms_and_closures (ctx : option delim) (seq : list item) : list item :=
  let brace := is_brace ctx in
  let final := lead_pipes brace [] (closures_run (arms brace seq)) in
  if brace && existsb (fun t => is_tok t s_fatarrow) final then drop_arm_commas None final else final.

(* tokens.py:403 trailing_seps, first loop *)
Definition last_is (items : list item) (s : text) : bool :=
  match rev items with y :: _ => is_tok y s | [] => false end.
(* tokens.py tuple_commas: the commas that separate the elements of a parenthesised list: not those inside matched
   `<`..`>` (generic arguments) nor those between the pipes of a closure's parameter list.
   stack: the commas seen since each unclosed `<`; pipe: those seen since the opening pipe of a parameter list *)
Fixpoint tuple_commas_loop (visible : nat) (stack : list nat) (pipe : option nat) (prev : option item)
  (items : list item) : nat :=
  match items with
  | [] => (visible + fold_right Nat.add O stack + match pipe with Some n => n | None => O end)%nat
  | x :: r =>
      match pipe with
      | Some n =>
          if is_tok x s_comma then tuple_commas_loop visible stack (Some (S n)) (Some x) r
          else if is_tok x s_pipe then tuple_commas_loop visible stack None (Some x) r
          else tuple_commas_loop visible stack pipe (Some x) r
      | None =>
          if is_tok x s_pipe && starts_expr prev then tuple_commas_loop visible stack (Some O) (Some x) r
          else if is_tok x s_lt then tuple_commas_loop visible (O :: stack) None (Some x) r
          else if is_tok x s_gt && match stack with [] => false | _ :: _ => true end then tuple_commas_loop visible (tl stack) None (Some x) r
          else if is_tok x s_comma then
            match stack with
            | n :: st => tuple_commas_loop visible (S n :: st) None (Some x) r
            | [] => tuple_commas_loop (S visible) [] None (Some x) r
            end
          else tuple_commas_loop visible stack None (Some x) r
      end
  end.
Definition tuple_commas (items : list item) : nat := tuple_commas_loop O [] None None items.
Definition trim_group (out : list item) (x : item) : item :=
  match x with
  | Grp d items =>
      let items1 :=
        if last_is items s_comma
        then if negb (delim_eqb d DParen) || Nat.leb 2 (tuple_commas items) || arg_pos out
             then removelast items else items
        else items in
      let items2 :=
        match d with
        | DBrace => if drops_tail_semi items1 then removelast items1 else items1
        | _ => items1
        end in
      Grp d items2
  | Tok _ => x
  end.
Fixpoint trim_groups (out : list item) (seq : list item) : list item :=
  match seq with
  | [] => []
  | x :: r => let x' := trim_group out x in x' :: trim_groups (x' :: out) r
  end.
(* second loop: `,` before `>`, and the last `,` of a where clause *)
Definition ends_where (x : item) : bool := is_tok x s_semi || is_tok x s_eq || is_grp x DBrace.
Fixpoint where_commas (in_where : bool) (angle : nat) (seq : list item) : list item :=
  match seq with
  | [] => []
  | x :: r =>
      let nxt := hd_error r in
      let w := is_tok x s_where in
      let in_where1 := w || in_where in
      let angle1 := if w then O else angle in
      let angle2 := if in_where1 && is_tok x s_lt then S angle1 else angle1 in
      let angle3 := if in_where1 && is_tok x s_gt && Nat.ltb 0 angle2 then pred angle2 else angle2 in
      if is_tok x s_comma && is_tok_o nxt s_gt then where_commas in_where1 angle3 r
      else if is_tok x s_comma && in_where1 && Nat.eqb angle3 0
              && match nxt with None => true | Some y => ends_where y end
      then where_commas in_where1 angle3 r
      else
        let in_where2 := if in_where1 && Nat.eqb angle3 0 && ends_where x then false else in_where1 in
        x :: where_commas in_where2 angle3 r
  end.
Definition trailing_seps (seq : list item) : list item :=
  where_commas false O (trim_groups [] seq).

(* tokens.py:235 rewrite, the main loop (out reversed) *)
Definition vis_kw (x : item) : bool := tok_in x [s_crate; s_self; s_super].
Fixpoint rewrite_loop (ctx : option delim) (out : list item) (seq : list item) : list item :=
  match seq with
  | [] => rev out
  | x :: rest =>
      let nxt := hd_error rest in
      let prev := hd_error out in
      if is_tok x s_semi && (is_tok_o prev s_semi || (match prev with None => is_brace ctx | Some _ => false end))
      then rewrite_loop ctx out rest
      else if is_tok x s_where
              && match nxt with None => true | Some y => is_grp y DBrace || is_tok y s_semi || is_tok y s_eq end
      then rewrite_loop ctx out rest
      else if is_tok x s_colon && match prev with Some p => is_ident p | None => false end
              && match nxt with None => true | Some y => tok_in y [s_comma; s_gt; s_eq; s_where] end
              && negb (is_brace ctx)
      then rewrite_loop ctx out rest
      else if is_tok x s_extern && negb (is_tok_o nxt s_crate)
              && negb (match nxt with Some (Tok t) => starts_str_lit t | _ => false end)
      then rewrite_loop ctx (Tok s_abiC :: x :: out) rest
      else
        match rest with
        | Grp DParen [a; b] :: rest' =>
            if is_tok x s_pub && is_tok a s_in && vis_kw b
            then rewrite_loop ctx (Grp DParen [b] :: x :: out) rest'
            else rewrite_loop ctx (x :: out) rest
        | Grp DParen (a :: b :: c :: more) :: rest' =>
            if is_tok x s_pub && is_tok a s_in && is_tok b s_coloncolon
            then rewrite_loop ctx (Grp DParen (a :: c :: more) :: x :: out) rest'
            else rewrite_loop ctx (x :: out) rest
        | _ => rewrite_loop ctx (x :: out) rest
        end
  end.
Definition rewrite (o : opts) (ctx : option delim) (seq : list item) : list item :=
  let out := block_tails (rewrite_loop ctx [] seq) in
  let out := if o_macro_def o then out else arms_and_closures ctx out in
  trailing_seps out.

(* ------------------------------------------------------------------ *)
(* tokens.py:187 macro_def.  The python function calls norm_seq on the body of each well-formed arm; to keep
   the recursion structural, norm_seq hands over every item of the macro body paired with the normal form (as
   code, under _macro_def) of its contents (empty for a string); only the pairs of arm bodies are looked at.
   tokens.py:207 raw is a deep copy: the identity here. *)
Definition mitem : Type := item * list item.
Fixpoint glue2 (seq : list mitem) : list mitem :=
  match seq with
  | [] => []
  | x :: tl =>
      match x, tl with
      | (Tok a, _), (Tok b, _) :: rest => if glue_pair a b then (Tok (a ++ b), []) :: glue2 rest else x :: glue2 tl
      | _, _ => x :: glue2 tl
      end
  end.
Definition macro_arm (arm : list mitem) : list item :=
  match arm with
  | [] => []
  | _ :: _ =>
      match arm with
      | [(Grp _ m, _); (a, _); (Grp _ _, nb)] =>
          if is_tok a s_fatarrow then [Grp DParen m; Tok s_fatarrow; Grp DBrace nb; Tok s_semi]
          else map fst arm ++ [Tok s_semi]
      | _ => map fst arm ++ [Tok s_semi]
      end
  end.
Definition macro_def (items : list mitem) : list item :=
  concat (map macro_arm (split_on (fun x : mitem => is_tok (fst x) s_semi) [] (glue2 items))).

(* tokens.py:135 norm_seq.  out is reversed; skip = inside one of the two loops that swallow `;` *)
Definition macro_rules_head (out : list item) : bool :=
  match out with
  | a :: b :: c :: more =>
      is_ident a &&
      ((is_tok b s_bang && is_tok c s_macro_rules)
       || match more with
          | d :: _ => is_tok c s_bang && is_tok d s_macro_rules && is_tok b s_dollar
          | [] => false
          end)
  | _ => false
  end.
(* the while loop of the nested-parentheses collapse, on the group itself *)
Fixpoint collapse_parens (g : item) : item :=
  match g with
  | Grp DParen [Grp DParen its' as y] => collapse_parens y
  | _ => g
  end.

(* the loop of norm_seq; rec o ctx x = norm_seq(x.items, o, ctx) for a group x (the recursion is tied in
   norm_in below: a recursion over the nested type must be structural in the item) *)
Section NormLoop.
Variable rec : opts -> option delim -> item -> list item.
Fixpoint norm_loop (o : opts) (ctx : option delim) (out : list item) (skip : bool) (items : list item)
  {struct items} : list item :=
  match items with
  | [] => rewrite o ctx (glue (rev out))
  | x :: rest =>
      if skip && is_tok x s_semi then norm_loop o ctx out true rest else
      match x with
      | Grp d sub =>
          if macro_rules_head out then
            let o2 := set_macro_def o in
            let sub2 := map (fun c => (c, rec o2 (Some DBrace) c)) sub in
            norm_loop o ctx (Grp DBrace (macro_def sub2) :: out) true rest
          else
            let inner := rec o (Some d) x in
            let prev := hd_error out in
            let cl := arg_pos out in
            let g := if o_remove_nested_parens o && negb cl then collapse_parens (Grp d inner) else Grp d inner in
            let lit := match g with
                       | Grp DParen [Tok t] => if starts_with_digit t && negb cl then Some t else None
                       | _ => None
                       end in
            match lit with
            | Some t => norm_loop o ctx (Tok t :: out) false rest
            | None =>
                if is_tok_o prev s_bang && match out with _ :: y :: _ => is_ident y | _ => false end
                then norm_loop o ctx (match g with Grp _ its => Grp DParen its | Tok _ => g end :: out) true rest
                else norm_loop o ctx (g :: out) false rest
            end
      | Tok t =>
          match rest with
          | y :: rest' =>
              if eqb_text t s_lt && is_tok y s_gt then
                let out' := match out with
                            | p :: out1 => if is_tok p s_coloncolon || is_tok p s_for then out1 else out
                            | [] => out
                            end in
                norm_loop o ctx out' false rest'
              else norm_loop o ctx (x :: out) false rest
          | [] => norm_loop o ctx (x :: out) false rest
          end
      end
  end.
End NormLoop.
Fixpoint norm_in (o : opts) (ctx : option delim) (x : item) {struct x} : list item :=
  match x with
  | Grp _ sub => norm_loop norm_in o ctx [] false sub
  | Tok _ => []
  end.
Definition norm_seq (o : opts) (ctx : option delim) (items : list item) : list item :=
  norm_loop norm_in o ctx [] false items.

(* tokens.py:447 flatten *)
Fixpoint flatten_item (x : item) : list text :=
  match x with
  | Tok t => [t]
  | Grp d its => open_text d :: flat_map flatten_item its ++ [close_text d]
  end.
Definition flatten (seq : list item) : list text := flat_map flatten_item seq.

(* ------------------------------------------------------------------ *)
(* sorting: python compares strings by code point, tuples of strings lexicographically *)
Fixpoint text_leb (a b : text) : bool :=
  match a, b with
  | [], _ => true
  | _ :: _, [] => false
  | x :: a', y :: b' => if x <? y then true else if y <? x then false else text_leb a' b'
  end.
Fixpoint texts_leb (a b : list text) : bool :=
  match a, b with
  | [], _ => true
  | _ :: _, [] => false
  | x :: a', y :: b' => if eqb_text x y then texts_leb a' b' else text_leb x y
  end.
Fixpoint eqb_texts (a b : list text) : bool :=
  match a, b with
  | [], [] => true
  | x :: a', y :: b' => eqb_text x y && eqb_texts a' b'
  | _, _ => false
  end.
(* sorted(..): insertion sort, duplicates kept *)
Fixpoint insert_sorted (x : text) (l : list text) : list text :=
  match l with
  | [] => [x]
  | y :: l' => if text_leb x y then x :: l else y :: insert_sorted x l'
  end.
Definition sort_texts (l : list text) : list text := fold_right insert_sorted [] l.
(* sorted(set(..)) *)
Fixpoint insert_uniq (x : text) (l : list text) : list text :=
  match l with
  | [] => [x]
  | y :: l' => if eqb_text x y then l else if text_leb x y then x :: l else y :: insert_uniq x l'
  end.
Definition sort_uniq (l : list text) : list text := fold_right insert_uniq [] l.

(* tokens.py:465 use_leaves.  parse walks the comma-separated parts of one brace level with a small state:
   scanning the path (segments reversed; first = nothing of the part seen yet), just after `as`, or done
   (python breaks out of the part at a sub-group or after the alias). *)
Definition uentry : Type := list text * option text.        (* path segments ([] = the leading `::`), alias *)
Inductive pstate :=
| PScan (segs : list text) (first : bool)
| PAlias (segs : list text)
| PDone (leaves : list uentry).
Definition leaf (prefix segs : list text) (alias : option text) : list uentry :=
  let path := prefix ++ rev segs in
  let path := match rev path with
              | l :: _ :: _ => if eqb_text l s_self then removelast path else path
              | _ => path
              end in
  match rev path with
  | [] => []
  | l :: _ =>
      let alias := match alias with
                   | Some a => if eqb_text a l then None else alias
                   | None => None
                   end in
      [(path, alias)]
  end.
(* the string of a leaf: segments joined by `::`, then ` as alias` unless the alias is missing or empty *)
Definition render_leaf (e : uentry) : text :=
  join s_coloncolon (fst e) ++ match snd e with
                               | Some (c :: a) => s_sp_as_sp ++ c :: a
                               | _ => []
                               end.
Definition pfinish (prefix : list text) (st : pstate) : list uentry :=
  match st with
  | PScan segs first => if first then [] else leaf prefix segs None
  | PAlias segs => leaf prefix segs None
  | PDone ls => ls
  end.
Section ParseLoop.
Variable rec : list text -> item -> list uentry.     (* rec prefix g = parse(g.items, prefix) *)
Variable drop_root : bool.
Fixpoint parse_loop (prefix : list text) (st : pstate) (ts : list item) : list uentry :=
  match ts with
  | [] => pfinish prefix st
  | t :: ts' =>
      if is_tok t s_comma then pfinish prefix st ++ parse_loop prefix (PScan [] true) ts' else
      match st with
      | PDone _ => parse_loop prefix st ts'
      | PAlias segs =>
          parse_loop prefix (PDone (leaf prefix segs match t with Tok a => Some a | Grp _ _ => None end)) ts'
      | PScan segs first =>
          match t with
          | Grp _ _ => parse_loop prefix (PDone (rec (prefix ++ rev segs) t)) ts'
          | Tok s =>
              if eqb_text s s_as then parse_loop prefix (PAlias segs) ts'
              else if eqb_text s s_coloncolon then
                parse_loop prefix
                  (PScan (if first && match prefix with [] => true | _ :: _ => false end && negb drop_root
                          then [] :: segs else segs) false) ts'
              else parse_loop prefix (PScan (s :: segs) false) ts'
          end
      end
  end.
End ParseLoop.
Fixpoint parse_grp (drop_root : bool) (prefix : list text) (x : item) {struct x} : list uentry :=
  match x with
  | Grp _ sub => parse_loop (parse_grp drop_root) drop_root prefix (PScan [] true) sub
  | Tok _ => []
  end.
Definition parse_entries (drop_root : bool) (items : list item) : list uentry :=
  parse_loop (parse_grp drop_root) drop_root [] (PScan [] true) items.
Definition parse_use (drop_root : bool) (items : list item) : list text :=
  map render_leaf (parse_entries drop_root items).
Definition use_leaves (drop_root : bool) (items : list item) : list text :=
  sort_uniq (parse_use drop_root items).

(* tokens.py:504 reorder_runs: statements *)
Definition is_inner_doc (x : item) : bool :=
  match x with Tok t => starts_with s_DOCdli t || starts_with s_DOCdbi t | Grp _ _ => false end.
Definition is_outer_doc (x : item) : bool :=
  match x with Tok t => starts_with s_DOCdlo t || starts_with s_DOCdbo t | Grp _ _ => false end.
(* (statements, tail); cur reversed *)
Fixpoint stmts_split (cur : list item) (seq : list item) : list (list item) * list item :=
  match seq with
  | [] => ([], rev cur)
  | x :: r =>
      if is_inner_doc x then
        let (ss, tl) := stmts_split [] r in
        ((match cur with [] => [] | _ :: _ => [rev cur] end) ++ [x] :: ss, tl)
      else
        let cur' := x :: cur in
        let ends :=
          is_tok x s_semi
          || (is_grp x DBrack && match cur with [b; a] => is_tok a s_hash && is_tok b s_bang | _ => false end)
          || (is_grp x DBrace && negb (existsb (fun t => is_tok t s_use) cur)) in
        if ends then let (ss, tl) := stmts_split [] r in (rev cur' :: ss, tl)
        else stmts_split cur' r
  end.

(* kind(st) *)
Inductive rkind := RUse | RMod | RExtern.
Definition rkind_eqb (a b : rkind) : bool :=
  match a, b with RUse, RUse | RMod, RMod | RExtern, RExtern => true | _, _ => false end.
(* core[:j] and core[j:] *)
Fixpoint attr_split (prev_hash : bool) (l : list item) : list item * list item :=
  match l with
  | [] => ([], [])
  | x :: l' =>
      if is_tok x s_hash then let (a, b) := attr_split true l' in (x :: a, b)
      else if (is_grp x DBrack && prev_hash) || is_outer_doc x then let (a, b) := attr_split false l' in (x :: a, b)
      else ([], l)
  end.
(* core[j:k] and core[k:] *)
Definition vis_split (l : list item) : list item * list item :=
  match l with
  | x :: l' =>
      if is_tok x s_pub then
        match l' with
        | y :: l'' => if is_grp y DParen then ([x; y], l'') else ([x], l')
        | [] => ([x], l')
        end
      else ([], l)
  | [] => ([], [])
  end.
Definition has_macro_use (attrs : list item) : bool :=
  existsb (fun g => match g with
                    | Grp DBrack (y :: _) => is_tok y s_macro_use
                    | _ => false
                    end) attrs.
(* Some (kind, head = st[:k], body = st[k:]) *)
Definition stmt_kind (st : list item) : option (rkind * list item * list item) :=
  let (attrs, r1) := attr_split false st in
  let (vis, body) := vis_split r1 in
  let head := attrs ++ vis in
  match body with
  | b0 :: body' =>
      if is_tok b0 s_use && last_is st s_semi then Some (RUse, head, body)
      else if is_tok b0 s_mod && last_is st s_semi && Nat.eqb (length body) 3 then
        if has_macro_use attrs then None else Some (RMod, head, body)
      else if is_tok b0 s_extern && match body' with b1 :: _ => is_tok b1 s_crate | [] => false end then
        if has_macro_use attrs then None else Some (RExtern, head, body)
      else None
  | [] => None
  end.

(* the classes of a run of imports: (head, sorted set of leaves), in first-seen order *)
Fixpoint add_class (head : list text) (leaves : list text) (cs : list (list text * list text))
  : list (list text * list text) :=
  match cs with
  | [] => [(head, sort_uniq leaves)]
  | (h, ls) :: cs' =>
      if eqb_texts h head then (h, fold_right insert_uniq ls leaves) :: cs'
      else (h, ls) :: add_class head leaves cs'
  end.
Fixpoint insert_class (c : list text * list text) (l : list (list text * list text)) :=
  match l with
  | [] => [c]
  | y :: l' => if texts_leb (fst c) (fst y) then c :: l else y :: insert_class c l'
  end.
Definition use_string (c : list text * list text) : text :=
  s_USE ++ join [SP] (fst c) ++ s_rb_lb ++ join s_semi_sp (snd c) ++ s_rbrace.
Definition item_string (s : text) : text := s_ITEM ++ s ++ s_rbrack.

(* a run: its kind and its statements (head, body, whole statement), reversed *)
Definition run : Type := rkind * list (list item * list item * list item).
Definition flush_run (o : opts) (r : option run) : list item :=
  match r with
  | None => []
  | Some (RUse, sts) =>
      let classes := fold_left (fun cs e => let '(head, body, _) := e in
                                            add_class (flatten head)
                                              (parse_use (o_edition2015 o) (removelast (tl body))) cs)
                               (rev sts) [] in
      map (fun c => Tok (use_string c)) (fold_right insert_class [] classes)
  | Some (_, sts) =>
      map (fun s => Tok (item_string s))
          (sort_texts (map (fun e => let '(_, _, st) := e in join [SP] (flatten st)) (rev sts)))
  end.
Fixpoint runs (o : opts) (cur : option run) (stmts : list (list item)) : list item :=
  match stmts with
  | [] => flush_run o cur
  | st :: r =>
      match stmt_kind st with
      | None => flush_run o cur ++ st ++ runs o None r
      | Some (k, head, body) =>
          match cur with
          | Some (k0, sts) =>
              if rkind_eqb k0 k then runs o (Some (k0, (head, body, st) :: sts)) r
              else flush_run o cur ++ runs o (Some (k, [(head, body, st)])) r
          | None => runs o (Some (k, [(head, body, st)])) r
          end
      end
  end.
Definition reorder_runs (o : opts) (seq : list item) : list item :=
  let (stmts, tail) := stmts_split [] seq in
  runs o None stmts ++ tail.

(* tokens.py:584 norm_tree *)
Fixpoint norm_tree_item (o : opts) (x : item) : item :=
  match x with
  | Grp d its => Grp d (reorder_runs o (map (norm_tree_item o) its))
  | Tok _ => x
  end.
Definition norm_tree (o : opts) (seq : list item) : list item :=
  reorder_runs o (map (norm_tree_item o) seq).

(* tokens.py:594 merge_derives (out reversed) *)
Definition nonempty {A : Type} (l : list A) : bool := match l with [] => false | _ :: _ => true end.
Section MergeLoop.
Variable rec : item -> item.               (* merge_derives inside a group *)
Fixpoint md_loop (out : list item) (seq : list item) : list item :=
  match seq with
  | [] => rev out
  | x :: rest =>
      let x' := rec x in
      match x', out with
      | Grp DBrack [dv; Grp _ b], h1 :: Grp DBrack [dv0; Grp _ a] :: h3 :: out' =>
          if is_tok dv s_derive && is_tok h1 s_hash && is_tok dv0 s_derive && is_tok h3 s_hash then
            md_loop (Grp DBrack [Tok s_derive;
                                 Grp DParen (a ++ (if nonempty a && nonempty b then [Tok s_comma] else []) ++ b)]
                     :: h3 :: out') rest
          else md_loop (x' :: out) rest
      | _, _ => md_loop (x' :: out) rest
      end
  end.
End MergeLoop.
Fixpoint md_item (x : item) : item :=
  match x with
  | Grp d its => Grp d (md_loop md_item [] its)
  | Tok _ => x
  end.
Definition merge_derives (seq : list item) : list item := md_loop md_item [] seq.

(* tokens.py:616 norm *)
Definition norm_items (o : opts) (ts : list tok) : list item :=
  let t := tree o (significant ts) in
  let t := norm_seq o None t in
  let t := if o_merge_derives o then merge_derives t else t in
  norm_tree o t.
Definition norm (o : opts) (ts : list tok) : list text := flatten (norm_items o ts).

(* ------------------------------------------------------------------ *)
(* specification-level definitions used by the theorems of Props.v *)

(* the atoms of a program: its significant tokens, literals and doc comments in normalised spelling,
   delimiters nested and flattened again *)
Definition atoms_of (o : opts) (ts : list tok) : list text := flatten (tree o (significant ts)).

(* the pipeline with reorder_runs (norm_tree) and merge_derives switched off *)
Definition norm_core_items (o : opts) (ts : list tok) : list item :=
  norm_seq o None (tree o (significant ts)).
Definition norm_core (o : opts) (ts : list tok) : list text := flatten (norm_core_items o ts).

(* the two-character tokens made by glue, split again *)
Definition unglue1 (t : text) : list text :=
  if eqb_text t s_coloncolon then [s_colon; s_colon]
  else if eqb_text t s_arrow then [s_minus; s_gt]
  else if eqb_text t s_fatarrow then [s_eq; s_gt]
  else [t].
Definition unglue (l : list text) : list text := flat_map unglue1 l.

(* the separators and markers that some normalisation of the closed list may insert or remove; every other
   atom (identifier, keyword, literal, lifetime, operator character, doc comment, attribute mark) is essential *)
Definition inessential : list text :=
  [s_comma; s_semi; s_pipe; s_lparen; s_rparen; s_lbrack; s_rbrack; s_lbrace; s_rbrace; s_lt; s_gt; s_colon;
   s_abiC; s_in; s_where; s_for].
Definition essential (t : text) : bool :=
  negb (match t with [] => true | _ :: _ => false end || mem_text t inessential).
Definition ess (l : list text) : list text := filter essential (unglue l).
(* merging derives also drops one attribute mark and one `derive` per merged attribute *)
Definition essential_md (t : text) : bool := essential t && negb (mem_text t [s_hash; s_derive]).

(* l1 is a subsequence of l2 (same order, l2 may have more) *)
Inductive Sub {A : Type} : list A -> list A -> Prop :=
| Sub_nil : Sub [] []
| Sub_keep x l1 l2 : Sub l1 l2 -> Sub (x :: l1) (x :: l2)
| Sub_skip x l1 l2 : Sub l1 l2 -> Sub l1 (x :: l2).
(* a statement that reorder_runs leaves in place *)
Definition nonrun (st : list item) : bool :=
  match stmt_kind st with None => true | Some _ => false end.
Definition ess_md (l : list text) : list text := filter essential_md (unglue l).
(* the pipeline with reorder_runs switched off, merge_derives as configured *)
Definition norm_noreorder (o : opts) (ts : list tok) : list text :=
  let t := norm_core_items o ts in
  flatten (if o_merge_derives o then merge_derives t else t).

(* ------------------------------------------------------------------ *)
(* P3: the closed list of style normalisations as a relation on token trees.
   A step rewrites the item sequence of ONE nesting level, given whole (pre ++ redex ++ post), because several
   side conditions look at the neighbours or at the ends of the sequence.  c = where the sequence lives. *)
Inductive sctx :=
| CTop                      (* the file *)
| CIn (d : delim)           (* the contents of a delimited group, as code *)
| CMacro.                   (* the contents of the body of a macro_rules definition: arms matcher => body ; *)
Definition sctx_of (ctx : option delim) : sctx :=
  match ctx with None => CTop | Some d => CIn d end.
Definition brace_ctx (c : sctx) : bool := match c with CIn DBrace => true | _ => false end.
Definition lasto (l : list item) : option item := hd_error (rev l).
(* the group that follows pre is the body of a macro_rules definition *)
Definition macro_def_pos (pre : list item) : bool := macro_rules_head (rev pre).
(* the group that follows pre is the argument of a macro call  name ! *)
Definition macro_call_pos (pre : list item) : bool :=
  match rev pre with b :: y :: _ => is_tok b s_bang && is_ident y | _ => false end.
(* no top-level `|`, `;`, `=>` : a closure parameter list *)
Definition closure_params (l : list item) : bool :=
  negb (existsb (fun y => is_tok y s_pipe || is_tok y s_semi || is_tok y s_fatarrow) l).
(* the where-clause state of trailing_seps after a prefix: (inside a where clause, angle depth) *)
Definition wstep (st : bool * nat) (x : item) : bool * nat :=
  let (in_where, angle) := st in
  let w := is_tok x s_where in
  let in_where1 := w || in_where in
  let angle1 := if w then O else angle in
  let angle2 := if in_where1 && is_tok x s_lt then S angle1 else angle1 in
  let angle3 := if in_where1 && is_tok x s_gt && Nat.ltb 0 angle2 then pred angle2 else angle2 in
  (if in_where1 && Nat.eqb angle3 0 && ends_where x then false else in_where1, angle3).
Definition wstate (pre : list item) : bool * nat := fold_left wstep pre (false, O).
Definition is_fatarrow (t : item) : bool := is_tok t s_fatarrow.

Inductive Step (c : sctx) : list item -> list item -> Prop :=
(* redundant semicolons: after a `;`, or first in a block *)
| S_redundant_semi pre post :
    is_tok_o (lasto pre) s_semi || (match pre with [] => brace_ctx c | _ :: _ => false end) = true ->
    Step c (pre ++ Tok s_semi :: post) (pre ++ post)
(* the `;` after a macro call / macro definition is optional: m!{..} and m!(..); *)
| S_macro_semi pre g post :
    macro_def_pos pre || macro_call_pos pre = true ->
    Step c (pre ++ g :: Tok s_semi :: post) (pre ++ g :: post)
(* `where` with no predicates *)
| S_empty_where pre post :
    match post with [] => true | y :: _ => ends_where y end = true ->
    Step c (pre ++ Tok s_where :: post) (pre ++ post)
(* empty bound list  T:  *)
| S_empty_bounds pre post :
    match lasto pre with Some p => is_ident p | None => false end = true ->
    match post with [] => true | y :: _ => tok_in y [s_comma; s_gt; s_eq; s_where] end = true ->
    brace_ctx c = false ->
    Step c (pre ++ Tok s_colon :: post) (pre ++ post)
(* explicit extern ABI *)
| S_extern_abi pre post :
    match post with
    | [] => true
    | y :: _ => negb (is_tok y s_crate) && negb (match y with Tok t => starts_str_lit t | Grp _ _ => false end)
    end = true ->
    Step c (pre ++ Tok s_extern :: post) (pre ++ Tok s_extern :: Tok s_abiC :: post)
(* pub(in crate|self|super) and pub(in ::path) *)
| S_vis_in pre b post :
    vis_kw b = true ->
    Step c (pre ++ Tok s_pub :: Grp DParen [Tok s_in; b] :: post) (pre ++ Tok s_pub :: Grp DParen [b] :: post)
| S_vis_root pre x more post :
    Step c (pre ++ Tok s_pub :: Grp DParen (Tok s_in :: Tok s_coloncolon :: x :: more) :: post)
           (pre ++ Tok s_pub :: Grp DParen (Tok s_in :: x :: more) :: post)
(* return; / break; / continue; as the last statement of a block *)
| S_diverging_semi its :
    c = CIn DBrace -> drops_tail_semi (its ++ [Tok s_semi]) = true ->
    Step c (its ++ [Tok s_semi]) its
(* optional trailing separator of a group; NOT the comma of a one-element tuple: a `(` group that is not in
   argument position (arg_pos) and has no other element separator (tuple_commas) keeps its trailing comma *)
| S_trailing_sep pre d its post :
    negb (delim_eqb d DParen) || Nat.leb 2 (tuple_commas (its ++ [Tok s_comma])) || arg_pos (rev pre) = true ->
    Step c (pre ++ Grp d (its ++ [Tok s_comma]) :: post) (pre ++ Grp d its :: post)
(* `,` before `>` in a generic list *)
| S_generic_comma pre post :
    Step c (pre ++ Tok s_comma :: Tok s_gt :: post) (pre ++ Tok s_gt :: post)
(* the last `,` of a where clause *)
| S_where_comma pre post :
    (let (w, a) := wstate pre in w && Nat.eqb a 0) = true ->
    match post with [] => true | y :: _ => ends_where y end = true ->
    Step c (pre ++ Tok s_comma :: post) (pre ++ post)
(* match arm body: block versus expression, and the comma after a block body *)
| S_arm_block pre body post :
    brace_ctx c = true -> single_expr_block (Grp DBrace body) = true ->
    Step c (pre ++ Tok s_fatarrow :: Grp DBrace body :: post) (pre ++ Tok s_fatarrow :: body ++ post)
| S_arm_comma pre b post :
    brace_ctx c = true -> existsb is_fatarrow (pre ++ post) = true ->
    Step c (pre ++ Grp DBrace b :: Tok s_comma :: post) (pre ++ Grp DBrace b :: post)
(* closures: trailing comma of the parameter list, block versus expression body *)
| S_closure_comma pre params post :
    starts_expr (lasto pre) = true -> closure_params params = true ->
    Step c (pre ++ Tok s_pipe :: params ++ Tok s_comma :: Tok s_pipe :: post)
           (pre ++ Tok s_pipe :: params ++ Tok s_pipe :: post)
| S_closure_block pre params body post :
    starts_expr (lasto pre) = true -> closure_params params = true ->
    single_expr_block (Grp DBrace body) = true ->
    Step c (pre ++ Tok s_pipe :: params ++ Tok s_pipe :: Grp DBrace body :: post)
           (pre ++ Tok s_pipe :: params ++ Tok s_pipe :: body ++ post)
(* leading pipe of a match arm pattern *)
| S_leading_pipe pre post :
    brace_ctx c = true -> arm_start (rev pre) = true -> arrow_before_comma post = true ->
    Step c (pre ++ Tok s_pipe :: post) (pre ++ post)
(* redundant nested parentheses, parentheses around a literal *)
| S_nested_parens pre its post :
    arg_pos (rev pre) = false ->
    Step c (pre ++ Grp DParen [Grp DParen its] :: post) (pre ++ Grp DParen its :: post)
| S_literal_parens pre t post :
    arg_pos (rev pre) = false -> starts_with_digit t = true ->
    Step c (pre ++ Grp DParen [Tok t] :: post) (pre ++ Tok t :: post)
(* the delimiter of a macro call, and of the body of a macro definition *)
| S_macro_delim pre d d' its post :
    macro_def_pos pre || macro_call_pos pre = true ->
    Step c (pre ++ Grp d its :: post) (pre ++ Grp d' its :: post)
(* empty generic lists and binders *)
| S_empty_generics pre post :
    Step c (pre ++ Tok s_lt :: Tok s_gt :: post) (pre ++ post)
| S_empty_turbofish pre post :
    Step c (pre ++ Tok s_coloncolon :: Tok s_lt :: Tok s_gt :: post) (pre ++ post)
| S_empty_binder pre post :
    Step c (pre ++ Tok s_for :: Tok s_lt :: Tok s_gt :: post) (pre ++ post)
(* representation only: adjacent punctuation characters read as one token  ::  ->  => *)
| S_glue pre a b post :
    glue_pair a b = true ->
    Step c (pre ++ Tok a :: Tok b :: post) (pre ++ Tok (a ++ b) :: post)
(* macro_rules bodies: `;` between arms, doubled or trailing; delimiters of matcher and body *)
| S_macro_sep pre post :
    c = CMacro ->
    match post with [] => true | y :: _ => is_tok y s_semi end = true ->
    Step c (pre ++ Tok s_semi :: post) (pre ++ post)
| S_macro_lead_sep post :
    c = CMacro -> Step c (Tok s_semi :: post) post
| S_macro_arm_delims pre d1 m d2 body d1' d2' post :
    c = CMacro ->
    match lasto pre with None => true | Some p => is_tok p s_semi end = true ->
    match post with [] => true | y :: _ => is_tok y s_semi end = true ->
    Step c (pre ++ Grp d1 m :: Tok s_fatarrow :: Grp d2 body :: post)
           (pre ++ Grp d1' m :: Tok s_fatarrow :: Grp d2' body :: post).

(* the reflexive-symmetric-transitive closure, closed under nesting: inside a group as code (never directly
   inside a macro_rules body, whose matchers are compared verbatim), inside the body group of a macro_rules
   definition with the macro steps, and inside the body of a macro arm as code in a block *)
Inductive Equiv (c : sctx) : list item -> list item -> Prop :=
| Eq_refl a : Equiv c a a
| Eq_sym a b : Equiv c a b -> Equiv c b a
| Eq_trans a b e : Equiv c a b -> Equiv c b e -> Equiv c a e
| Eq_step a b : Step c a b -> Equiv c a b
| Eq_nest pre d its its' post :
    c <> CMacro -> macro_def_pos pre = false -> Equiv (CIn d) its its' ->
    Equiv c (pre ++ Grp d its :: post) (pre ++ Grp d its' :: post)
| Eq_macro_body pre d its its' post :
    c <> CMacro -> macro_def_pos pre = true -> Equiv CMacro its its' ->
    Equiv c (pre ++ Grp d its :: post) (pre ++ Grp d its' :: post)
| Eq_macro_arm pre d1 m d2 body body' post :
    c = CMacro ->
    match lasto pre with None => true | Some p => is_tok p s_semi end = true ->
    match post with [] => true | y :: _ => is_tok y s_semi end = true ->
    Equiv (CIn DBrace) body body' ->
    Equiv c (pre ++ Grp d1 m :: Tok s_fatarrow :: Grp d2 body :: post)
            (pre ++ Grp d1 m :: Tok s_fatarrow :: Grp d2 body' :: post).

(* ------------------------------------------------------------------ *)
(* P2 end to end: what reorder_runs (norm_tree) does, declaratively *)

(* the tree that norm_tree is applied to: core passes, then merge_derives if configured *)
Definition post_core_items (o : opts) (ts : list tok) : list item :=
  let t := norm_core_items o ts in if o_merge_derives o then merge_derives t else t.

(* the atoms OUTSIDE the reorderable runs, at every nesting level.  Which statements of a level form runs is
   decided as norm_tree decides it: on the level's items with their contents already normalised.
   stmts: the statements of the normalised level; outs: the outside atoms of each ORIGINAL item, in order *)
Fixpoint cut_emit (stmts : list (list item)) (outs : list (list text)) : list text :=
  match stmts with
  | [] => concat outs
  | st :: r =>
      let n := length st in
      (if nonrun st then concat (firstn n outs) else []) ++ cut_emit r (skipn n outs)
  end.
Fixpoint outside_item (o : opts) (x : item) : list text :=
  match x with
  | Tok t => [t]
  | Grp d its =>
      open_text d
      :: cut_emit (fst (stmts_split [] (map (norm_tree_item o) its))) (map (outside_item o) its)
      ++ [close_text d]
  end.
Definition outside (o : opts) (seq : list item) : list text :=
  cut_emit (fst (stmts_split [] (map (norm_tree_item o) seq))) (map (outside_item o) seq).

(* a statement of a run as flush_run sees it: (attributes and visibility, the rest, the whole statement) *)
Definition run_entry : Type := list item * list item * list item.
Definition entry_head (e : run_entry) : list text := flatten (fst (fst e)).
Definition entry_leaves (o : opts) (e : run_entry) : list text :=
  parse_use (o_edition2015 o) (removelast (tl (snd (fst e)))).
Definition entry_kind (k : rkind) (e : run_entry) : Prop :=
  stmt_kind (snd e) = Some (k, fst (fst e), snd (fst e)).
(* the classes of a run of imports: one per distinct head (attributes + visibility, flattened); the leaf strings
   of a class are exactly the rendered leaves of the statements with that head *)
Definition UseClasses (o : opts) (sts : list run_entry) (cs : list (list text * list text)) : Prop :=
  NoDup (map fst cs) /\
  (forall h, In h (map fst cs) <-> exists e, In e sts /\ entry_head e = h) /\
  (forall h ls, In (h, ls) cs ->
     forall s, In s ls <-> exists e, In e sts /\ entry_head e = h /\ In s (entry_leaves o e)).
(* one segment of a level: a statement kept as it is, or a run and the canonical strings that replace it *)
Inductive SegSpec (o : opts) : list (list item) -> list item -> Prop :=
| Seg_keep st : stmt_kind st = None -> SegSpec o [st] st
| Seg_use (sts : list run_entry) cs :
    sts <> [] -> Forall (entry_kind RUse) sts -> UseClasses o sts cs ->
    SegSpec o (map snd sts) (map (fun c => Tok (use_string c)) cs)
| Seg_items k (sts : list run_entry) out :
    k <> RUse -> sts <> [] -> Forall (entry_kind k) sts ->
    Permutation out (map (fun e : run_entry => Tok (item_string (join [SP] (flatten (snd e))))) sts) ->
    SegSpec o (map snd sts) out.
Definition LevelSpec (o : opts) (seq out : list item) : Prop :=
  exists (segs : list (list (list item) * list item)) (tail : list item),
    seq = concat (concat (map fst segs)) ++ tail /\
    out = concat (map snd segs) ++ tail /\
    Forall (fun sg => SegSpec o (fst sg) (snd sg)) segs.
(* the same at every nesting level: contents first, then the level itself *)
Inductive TreeSpec (o : opts) : list item -> list item -> Prop :=
| TS seq seq' out : Forall2 (ItemSpec o) seq seq' -> LevelSpec o seq' out -> TreeSpec o seq out
with ItemSpec (o : opts) : item -> item -> Prop :=
| IS_tok t : ItemSpec o (Tok t) (Tok t)
| IS_grp d its out : TreeSpec o its out -> ItemSpec o (Grp d its) (Grp d out).

(* ------------------------------------------------------------------ *)
(* P3 for the whole pipeline: the remaining normalisations of the closed list *)
Inductive StepF (o : opts) (c : sctx) : list item -> list item -> Prop :=
| SF_core a b : Step c a b -> StepF o c a b
(* #[derive(A)] #[derive(B)]  =  #[derive(A, B)]  (in code, not among the raw tokens of a macro_rules body) *)
| SF_merge_derives pre d1 a d2 b post :
    c <> CMacro ->
    StepF o c (pre ++ Tok s_hash :: Grp DBrack [Tok s_derive; Grp d1 a]
                   :: Tok s_hash :: Grp DBrack [Tok s_derive; Grp d2 b] :: post)
              (pre ++ Tok s_hash :: Grp DBrack [Tok s_derive;
                        Grp DParen (a ++ (if nonempty a && nonempty b then [Tok s_comma] else []) ++ b)] :: post)
(* ordering and merging of imports: consecutive use declarations and the canonical form of their import set, one
   string per (attributes, visibility) class listing the sorted set of leaves (see flush_run_classes in Props.v);
   two runs with the same canonical form are thereby equivalent *)
| SF_import_regroup pre (sts : list run_entry) post :
    c <> CMacro -> sts <> [] -> Forall (entry_kind RUse) sts ->
    StepF o c (pre ++ concat (map snd sts) ++ post) (pre ++ flush_run o (Some (RUse, rev sts)) ++ post)
(* ordering of module declarations / extern crate declarations: consecutive declarations and their sorted list *)
| SF_reorder_items pre k (sts : list run_entry) post :
    c <> CMacro -> k <> RUse -> sts <> [] -> Forall (entry_kind k) sts ->
    StepF o c (pre ++ concat (map snd sts) ++ post) (pre ++ flush_run o (Some (k, rev sts)) ++ post).

Inductive EquivF (o : opts) (c : sctx) : list item -> list item -> Prop :=
| EF_refl a : EquivF o c a a
| EF_sym a b : EquivF o c a b -> EquivF o c b a
| EF_trans a b e : EquivF o c a b -> EquivF o c b e -> EquivF o c a e
| EF_step a b : StepF o c a b -> EquivF o c a b
| EF_nest pre d its its' post :
    c <> CMacro -> macro_def_pos pre = false -> EquivF o (CIn d) its its' ->
    EquivF o c (pre ++ Grp d its :: post) (pre ++ Grp d its' :: post)
| EF_macro_body pre d its its' post :
    c <> CMacro -> macro_def_pos pre = true -> EquivF o CMacro its its' ->
    EquivF o c (pre ++ Grp d its :: post) (pre ++ Grp d its' :: post)
| EF_macro_arm pre d1 m d2 body body' post :
    c = CMacro ->
    match lasto pre with None => true | Some p => is_tok p s_semi end = true ->
    match post with [] => true | y :: _ => is_tok y s_semi end = true ->
    EquivF o (CIn DBrace) body body' ->
    EquivF o c (pre ++ Grp d1 m :: Tok s_fatarrow :: Grp d2 body :: post)
               (pre ++ Grp d1 m :: Tok s_fatarrow :: Grp d2 body' :: post).

(* merge_derives and reorder_runs also act inside the bodies of macro_rules definitions (matchers included), where
   EquivF allows nothing of the kind; norm_sound therefore assumes that they leave those bodies alone.
   P: the already transformed items before l, reversed (as the loops of the model see them) *)
Section SafeLoop.
Variable recsafe : item -> Prop.
Variable f : item -> item.
Fixpoint safe_loop (P : list item) (l : list item) : Prop :=
  match l with
  | [] => True
  | x :: r =>
      match x with
      | Grp _ _ => if macro_rules_head P then f x = x else recsafe x
      | Tok _ => True
      end /\ safe_loop (f x :: P) r
  end.
End SafeLoop.
Fixpoint msafe (f : item -> item) (x : item) : Prop :=
  match x with
  | Grp _ its => safe_loop (msafe f) f [] its
  | Tok _ => True
  end.
Definition msafe_seq (f : item -> item) (seq : list item) : Prop := safe_loop (msafe f) f [] seq.
Definition post_safe (o : opts) (ts : list tok) : Prop :=
  (o_merge_derives o = true -> msafe_seq md_item (norm_core_items o ts)) /\
  msafe_seq (norm_tree_item o) (post_core_items o ts).
