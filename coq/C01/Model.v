(* C01/Model.v — the OBSERVER of property C01: a normaliser on token streams.
   C01 is checked by translation validation: every formatting run's (input, output) pair is lexed by
   rustc_lexer (harness/src/pool.rs:11 lex) and the two token streams must have the same normal form.
   This file is the Gallina port, function by function, of the executable reference
   /verif/checks/tokens.py (each definition names the python function it ports and its line).
   rustfmt sources whose style freedoms the normalisations mirror:
     src/expr.rs:rewrite_paren (remove_nested_parens), src/lists.rs:SeparatorTactic (trailing separators),
     src/matches.rs:rewrite_match_body / flatten_arm_body (arm bodies, leading pipes, arm commas),
     src/closures.rs:rewrite_closure (closure bodies), src/items.rs:format_extern / rewrite_generics /
     rewrite_where_clause, src/utils.rs:format_visibility (pub(in ..)), src/macros.rs:rewrite_macro_inner
     (delimiter of vec!-like calls) and MacroParser (macro_rules arms), src/reorder.rs, src/imports.rs
     (import regrouping), src/attr.rs:merge_derives, src/comment.rs (doc comments), src/string.rs,
     src/expr.rs:rewrite_literal (hex_literal_case, float_literal_trailing_zero).
   Definitions only; proofs are in Lemmas.v. *)
From Coq Require Import String Ascii.
From V Require Import Base.Text.
Open Scope string_scope.
Open Scope N_scope.
Open Scope list_scope.

(* ------------------------------------------------------------------ *)
(* text constants: ASCII Coq strings as texts *)
Definition T (s : string) : text := map N_of_ascii (list_ascii_of_string s).

Definition s_semi : text := Eval compute in T ";".
Definition s_comma : text := Eval compute in T ",".
Definition s_colon : text := Eval compute in T ":".
Definition s_coloncolon : text := Eval compute in T "::".
Definition s_arrow : text := Eval compute in T "->".
Definition s_fatarrow : text := Eval compute in T "=>".
Definition s_lt : text := Eval compute in T "<".
Definition s_gt : text := Eval compute in T ">".
Definition s_eq : text := Eval compute in T "=".
Definition s_bang : text := Eval compute in T "!".
Definition s_quest : text := Eval compute in T "?".
Definition s_dollar : text := Eval compute in T "$".
Definition s_hash : text := Eval compute in T "#".
Definition s_pipe : text := Eval compute in T "|".
Definition s_dot : text := Eval compute in T ".".
Definition s_star : text := Eval compute in T "*".
Definition s_lparen : text := Eval compute in T "(".
Definition s_rparen : text := Eval compute in T ")".
Definition s_lbrack : text := Eval compute in T "[".
Definition s_rbrack : text := Eval compute in T "]".
Definition s_lbrace : text := Eval compute in T "{".
Definition s_rbrace : text := Eval compute in T "}".
Definition s_andand : text := Eval compute in T "&&".
Definition s_oror : text := Eval compute in T "||".
Definition s_where : text := Eval compute in T "where".
Definition s_for : text := Eval compute in T "for".
Definition s_extern : text := Eval compute in T "extern".
Definition s_crate : text := Eval compute in T "crate".
Definition s_self : text := Eval compute in T "self".
Definition s_Self : text := Eval compute in T "Self".
Definition s_super : text := Eval compute in T "super".
Definition s_fn : text := Eval compute in T "fn".
Definition s_pub : text := Eval compute in T "pub".
Definition s_in : text := Eval compute in T "in".
Definition s_use : text := Eval compute in T "use".
Definition s_mod : text := Eval compute in T "mod".
Definition s_as : text := Eval compute in T "as".
Definition s_let : text := Eval compute in T "let".
Definition s_struct : text := Eval compute in T "struct".
Definition s_enum : text := Eval compute in T "enum".
Definition s_impl : text := Eval compute in T "impl".
Definition s_trait : text := Eval compute in T "trait".
Definition s_type : text := Eval compute in T "type".
Definition s_const : text := Eval compute in T "const".
Definition s_static : text := Eval compute in T "static".
Definition s_move : text := Eval compute in T "move".
Definition s_return : text := Eval compute in T "return".
Definition s_break : text := Eval compute in T "break".
Definition s_continue : text := Eval compute in T "continue".
Definition s_async : text := Eval compute in T "async".
Definition s_macro_rules : text := Eval compute in T "macro_rules".
Definition s_macro_use : text := Eval compute in T "macro_use".
Definition s_derive : text := Eval compute in T "derive".
Definition s_abiC : text := Eval compute in [34; 67; 34].        (* the three characters of the C ABI string literal *)
Definition s_DOC : text := Eval compute in T "DOC:".
Definition s_DOCdli : text := Eval compute in T "DOC:dli".
Definition s_DOCdbi : text := Eval compute in T "DOC:dbi".
Definition s_DOCdlo : text := Eval compute in T "DOC:dlo".
Definition s_DOCdbo : text := Eval compute in T "DOC:dbo".
Definition s_starslash : text := Eval compute in T "*/".
Definition s_0x : text := Eval compute in T "0x".
Definition s_sp_as_sp : text := Eval compute in T " as ".
Definition s_USE : text := Eval compute in T "USE[".
Definition s_ITEM : text := Eval compute in T "ITEM[".
Definition s_rb_lb : text := Eval compute in T "]{".
Definition s_semi_sp : text := Eval compute in T "; ".

(* tokens.py:11 KEYWORDS *)
Definition KEYWORDS : list text := Eval compute in map T
  ["as"; "break"; "const"; "continue"; "crate"; "else"; "enum"; "extern"; "false"; "fn"; "for"; "if"; "impl";
   "in"; "let"; "loop"; "match"; "mod"; "move"; "mut"; "pub"; "ref"; "return"; "self"; "Self"; "static";
   "struct"; "super"; "trait"; "true"; "type"; "unsafe"; "use"; "where"; "while"; "async"; "await"; "dyn";
   "abstract"; "become"; "box"; "do"; "final"; "macro"; "override"; "priv"; "typeof"; "unsized"; "virtual";
   "yield"; "try"; "union"; "raw"; "safe"; "gen"].

Fixpoint mem_text (t : text) (l : list text) : bool :=
  match l with
  | [] => false
  | x :: l' => eqb_text t x || mem_text t l'
  end.

(* ------------------------------------------------------------------ *)
(* small string functions (python str methods / the simple regexes of the prototype) *)

(* str.startswith *)
Fixpoint starts_with (p t : text) : bool :=
  match p, t with
  | [], _ => true
  | a :: p', b :: t' => (a =? b) && starts_with p' t'
  | _ :: _, [] => false
  end.

Definition is_digit (c : char) : bool := (48 <=? c) && (c <=? 57).
Definition is_upper (c : char) : bool := (65 <=? c) && (c <=? 90).
Definition is_lower (c : char) : bool := (97 <=? c) && (c <=? 122).
Definition is_alpha_ (c : char) : bool := is_upper c || is_lower c || (c =? 95).
Definition is_alnum_ (c : char) : bool := is_alpha_ c || is_digit c.
Definition is_digit_ (c : char) : bool := is_digit c || (c =? 95).
Definition is_hex_ (c : char) : bool :=
  is_digit c || ((97 <=? c) && (c <=? 102)) || ((65 <=? c) && (c <=? 70)) || (c =? 95).
(* str.lower on ASCII (only ever applied to hex digits) *)
Definition lower_ascii (c : char) : char := if is_upper c then c + 32 else c.

(* python str.isspace (str.strip() with no argument strips these) *)
Definition py_isspace (c : char) : bool := is_whitespace c || ((28 <=? c) && (c <=? 31)).

Fixpoint drop_while (p : char -> bool) (t : text) : text :=
  match t with
  | c :: t' => if p c then drop_while p t' else t
  | [] => []
  end.
(* the maximal prefix satisfying p, and the rest *)
Fixpoint span (p : char -> bool) (t : text) : text * text :=
  match t with
  | c :: t' => if p c then let (a, b) := span p t' in (c :: a, b) else ([], t)
  | [] => ([], [])
  end.
Definition rstrip_by (p : char -> bool) (t : text) : text := rev (drop_while p (rev t)).
Definition py_rstrip (t : text) : text := rstrip_by py_isspace t.
Definition py_strip (t : text) : text := py_rstrip (drop_while py_isspace t).

(* str.replace of CR LF by LF *)
Fixpoint crlf_to_lf (t : text) : text :=
  match t with
  | c :: t' =>
      match t' with
      | d :: t'' => if is_cr c && is_lf d then LF :: crlf_to_lf t'' else c :: crlf_to_lf t'
      | [] => [c]
      end
  | [] => []
  end.

(* str.split(LF): at least one piece *)
Fixpoint split_lf_aux (cur : text) (t : text) : list text :=
  match t with
  | [] => [rev cur]
  | c :: t' => if is_lf c then rev cur :: split_lf_aux [] t' else split_lf_aux (c :: cur) t'
  end.
Definition split_lf (t : text) : list text := split_lf_aux [] t.

(* sep.join *)
Fixpoint join (sep : text) (l : list text) : text :=
  match l with
  | [] => []
  | [x] => x
  | x :: l' => x ++ sep ++ join sep l'
  end.

(* dot-star-dollar of python re: no LF, except that dollar also matches before one final LF *)
Fixpoint dotstar_dollar (t : text) : bool :=
  match t with
  | [] => true
  | c :: t' => if is_lf c then match t' with [] => true | _ => false end else dotstar_dollar t'
  end.

(* `$`: end of text, or one final LF *)
Definition at_dollar (t : text) : bool :=
  match t with [] => true | [c] => is_lf c | _ => false end.

(* tokens.py:105 is_ident, on a string:  ^(r#)?[A-Za-z_][A-Za-z0-9_]*$ *)
Fixpoint ident_tail (t : text) : bool :=
  match t with
  | [] => true
  | c :: t' => if is_alnum_ c then ident_tail t' else at_dollar t
  end.
Definition ident_plain (t : text) : bool :=
  match t with
  | c :: t' => is_alpha_ c && ident_tail t'
  | [] => false
  end.
Definition is_ident_text (t : text) : bool :=
  match t with
  | 114 :: 35 :: t' => ident_plain t' || ident_plain t
  | _ => ident_plain t
  end.

(* ^[0-9] *)
Definition starts_with_digit (t : text) : bool :=
  match t with c :: _ => is_digit c | [] => false end.

(* regex: optional r followed by any number of hashes, then a double quote: a (raw) string literal *)
Definition starts_str_lit (t : text) : bool :=
  match t with
  | 34 :: _ => true
  | 114 :: t' => match drop_while (fun c => c =? 35) t' with 34 :: _ => true | _ => false end
  | _ => false
  end.

(* ------------------------------------------------------------------ *)
(* lexical tokens (harness/src/pool.rs:8-52) *)
Inductive litkind := LInt | LFloat | LChar | LByte | LStr | LBStr | LCStr | LRStr | LRBStr | LRCStr.
Inductive kind :=
| Kws | Klc | Kbc | Kshebang                 (* layout and non-doc comments *)
| Kdlo | Kdli | Kdbo | Kdbi                  (* doc comments: line outer/inner, block outer/inner *)
| Kid | Krid | Klt | Klit (l : litkind) | Kp | Kunk.
Definition tok : Type := kind * text.

(* the options the prototype reads; each field says which test of tokens.py it stands for *)
Record opts := mkOpts {
  o_remove_nested_parens : bool;     (* opts.get(remove_nested_parens, true) == true *)
  o_force_explicit_abi : bool;       (* carried for the record; never read (both spellings are canonicalised) *)
  o_hex_case : bool;                 (* hex_literal_case != Preserve *)
  o_float_zero : bool;               (* float_literal_trailing_zero != Preserve *)
  o_merge_derives : bool;            (* opts.get(merge_derives, true) == true *)
  o_edition2015 : bool;              (* opts.get(edition, 2015) == 2015 *)
  o_macro_def : bool                 (* the internal flag _macro_def *)
}.
Definition set_macro_def (o : opts) : opts :=
  mkOpts (o_remove_nested_parens o) (o_force_explicit_abi o) (o_hex_case o) (o_float_zero o)
         (o_merge_derives o) (o_edition2015 o) true.

(* tokens.py:27 significant *)
Definition is_trivia (k : kind) : bool :=
  match k with Kws | Klc | Kbc | Kshebang => true | _ => false end.
Definition significant (ts : list tok) : list tok := filter (fun t => negb (is_trivia (fst t))) ts.

(* tokens.py:36 doc_norm *)
Definition doc_kind_name (k : kind) : text :=
  match k with
  | Kdlo => T "dlo" | Kdli => T "dli" | Kdbo => T "dbo" | Kdbi => T "dbi" | _ => []
  end.
Definition doc_block_line (first : bool) (l : text) : text :=
  let s := py_strip l in
  if negb first && starts_with s_star s && negb (starts_with s_starslash s) then py_strip (tl s) else s.
Definition doc_block_lines (ls : list text) : list text :=
  match ls with
  | [] => []
  | l :: ls' => doc_block_line true l :: map (doc_block_line false) ls'
  end.
Definition doc_norm (k : kind) (t : text) : text :=
  let lines := split_lf (crlf_to_lf t) in
  let body := match k with
              | Kdbo | Kdbi => doc_block_lines lines
              | _ => map py_rstrip lines
              end in
  s_DOC ++ doc_kind_name k ++ s_colon ++ join [LF] body.

(* tokens.py:59 lit_norm *)
(* re.sub of  BACKSLASH CR? LF [ TAB CR LF]*  by nothing *)
Definition is_cont_blank (c : char) : bool := (c =? 32) || (c =? 9) || (c =? 13) || (c =? 10).
Fixpoint str_cont (skip : bool) (t : text) : text :=
  match t with
  | [] => []
  | c :: t' =>
      if skip && is_cont_blank c then str_cont true t'
      else if c =? 92 then
        match t' with
        | 10 :: t'' => str_cont true t''
        | 13 :: 10 :: t'' => str_cont true t''
        | _ => c :: str_cont false t'
        end
      else c :: str_cont false t'
  end.
(* regex: 0x, a non-empty run of [0-9a-fA-F_], then anything up to the end: lower-case the run *)
Definition hex_lower (t : text) : text :=
  match t with
  | 48 :: 120 :: t' =>
      let (h, r) := span is_hex_ t' in
      match h with
      | [] => t
      | _ => if dotstar_dollar r then s_0x ++ map lower_ascii h ++ r else t
      end
  | _ => t
  end.
(* regex: [0-9_]+, optionally a dot and [0-9_]*, an optional exponent, the rest: strip trailing 0 and _ of
   the fraction (exponent and rest are re-emitted unchanged, so only their concatenation matters) *)
Definition float_strip (t : text) : text :=
  let (a, r) := span is_digit_ t in
  match a with
  | [] => t
  | _ =>
      let '(frac, r') := match r with
                         | 46 :: r1 => span is_digit_ r1
                         | _ => ([], r)
                         end in
      if dotstar_dollar r' then
        let f := rstrip_by (fun c => (c =? 48) || (c =? 95)) frac in
        a ++ (match f with [] => [] | _ => 46 :: f end) ++ r'
      else t
  end.
Definition lit_norm (o : opts) (l : litkind) (t : text) : text :=
  match l with
  | LStr | LBStr | LCStr => str_cont false t
  | LInt => if o_hex_case o then hex_lower t else t
  | LFloat => if o_float_zero o then float_strip t else t
  | _ => t
  end.

(* tokens.py:50 atom *)
Definition atom (o : opts) (k : kind) (t : text) : text :=
  let t' := crlf_to_lf t in
  match k with
  | Kdlo | Kdli | Kdbo | Kdbi => doc_norm k t'
  | Klit l => lit_norm o l t'
  | _ => t'
  end.

(* END-OF-PART *)
