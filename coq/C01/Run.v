(* C01/Run.v — encodings for the correspondence run and for extraction.
   A token is (kind code, text); kind codes:
     0 ws  1 lc  2 bc  3 shebang  4 dlo  5 dli  6 dbo  7 dbi  8 id  9 rid  10 lt  11 p  12 unk
     20 lit:int  21 lit:float  22 lit:char  23 lit:byte  24 lit:str  25 lit:bstr  26 lit:cstr
     27 lit:rstr  28 lit:rbstr  29 lit:rcstr          (any other code: unk)
   Options are a bit mask:  1 remove_nested_parens = true   2 force_explicit_abi = true
     4 hex_literal_case <> Preserve   8 float_literal_trailing_zero <> Preserve
     16 merge_derives = true   32 edition = 2015 *)
From V Require Import Base.Text C01.Model.
Open Scope N_scope.

Definition kind_of_code (c : N) : kind :=
  match c with
  | 0 => Kws | 1 => Klc | 2 => Kbc | 3 => Kshebang
  | 4 => Kdlo | 5 => Kdli | 6 => Kdbo | 7 => Kdbi
  | 8 => Kid | 9 => Krid | 10 => Klt | 11 => Kp
  | 20 => Klit LInt | 21 => Klit LFloat | 22 => Klit LChar | 23 => Klit LByte
  | 24 => Klit LStr | 25 => Klit LBStr | 26 => Klit LCStr
  | 27 => Klit LRStr | 28 => Klit LRBStr | 29 => Klit LRCStr
  | _ => Kunk
  end.
Definition opts_of_code (c : N) : opts :=
  mkOpts (N.testbit c 0) (N.testbit c 1) (N.testbit c 2) (N.testbit c 3) (N.testbit c 4) (N.testbit c 5) false.
Definition decode (toks : list (N * text)) : list tok :=
  map (fun p => (kind_of_code (fst p), snd p)) toks.

Definition run_norm (oc : N) (toks : list (N * text)) : list text :=
  norm (opts_of_code oc) (decode toks).
