(* C01/Props.v — the theorems about the OBSERVER of property C01 (statements only; proofs in Lemmas.v).
   C01: "Whenever rustfmt accepts a source text and emits formatted text, that text ... denotes the same program:
   its token sequence equals the input's up to a closed set of style normalisations (...). No identifier,
   literal, operator, keyword, lifetime, visibility, attribute or doc comment is otherwise added, dropped,
   reordered or altered, inside macro invocations and macro definitions as well as in ordinary code."
   rustfmt's pretty-printer is not modelled; what is proved here is about the validator `norm` that is run on the
   (input, output) token streams of every formatting run (translation validation): two programs are identified
   iff norm gives the same list.  All statements are for every token list and every option record: no bound. *)
From Coq Require Import Permutation.
From V Require Import Base.Text C01.Model C01.Lemmas.

(* P1: norm is a total function of (options, tokens) *)
Theorem norm_deterministic_total : forall (o : opts) (ts : list tok), exists! r : list text, norm o ts = r.
Proof. exact norm_total_lemma. Qed.
Print Assumptions norm_deterministic_total.

(* P1: layout and non-doc comments never matter: a ws / line comment / block comment / shebang token anywhere *)
Theorem norm_ws_comments_irrelevant : forall (o : opts) (ts1 ts2 : list tok) (k : kind) (t : text),
  is_trivia k = true -> norm o (ts1 ++ [(k, t)] ++ ts2) = norm o (ts1 ++ ts2).
Proof. intros o ts1 ts2 k t. apply norm_ws_comments_irrelevant_lemma. Qed.
Print Assumptions norm_ws_comments_irrelevant.

(* how norm factors: the core passes (norm_seq), then merge_derives if configured, then reorder_runs at every level *)
Theorem norm_factors : forall (o : opts) (ts : list tok),
  norm o ts = flatten (norm_tree o (if o_merge_derives o then merge_derives (norm_core_items o ts)
                                    else norm_core_items o ts)).
Proof. intros o ts. reflexivity. Qed.
Print Assumptions norm_factors.

(* P2 (no-drop, partial: reorder_runs and merge_derives switched off): the essential atoms of the normal form are
   those of the input, IN THE SAME ORDER and with multiplicity.  essential = every atom except
   , ; | ( ) [ ] { } < > :  the C ABI string  in  where  for  (and the empty atom); :: -> => count as their
   characters.  Missing for the full pipeline: the canonical USE[..]/ITEM[..] strings of reorder_runs (see
   reorder_runs_outside, reorder_items_perm, use_leaves_sound below). *)
Theorem norm_preserves_essential_partial : forall (o : opts) (ts : list tok),
  ess (norm_core o ts) = ess (atoms_of o ts).
Proof. exact norm_core_preserves_essential. Qed.
Print Assumptions norm_preserves_essential_partial.

(* P2, as a statement about the checker: programs identified by the core pipeline have the same essential atoms
   in the same order: a dropped, added, altered or moved identifier / literal / keyword / lifetime / operator is
   never hidden *)
Theorem core_equal_same_essential_partial : forall (o : opts) (a b : list tok),
  norm_core o a = norm_core o b -> ess (atoms_of o a) = ess (atoms_of o b).
Proof. intros o a b H. rewrite <- !norm_core_preserves_essential, H. reflexivity. Qed.
Print Assumptions core_equal_same_essential_partial.

(* P2 for the pipeline with merge_derives as configured (reorder_runs still off): additionally the attribute
   mark and the word derive are not counted *)
Theorem norm_noreorder_preserves_essential_partial : forall (o : opts) (ts : list tok),
  ess_md (norm_noreorder o ts) = ess_md (atoms_of o ts).
Proof. exact norm_noreorder_preserves. Qed.
Print Assumptions norm_noreorder_preserves_essential_partial.

(* merging derives alone *)
Theorem merge_derives_preserves_essential : forall seq : list item,
  ess_md (flatten (merge_derives seq)) = ess_md (flatten seq).
Proof. exact merge_derives_preserves. Qed.
Print Assumptions merge_derives_preserves_essential.

(* reorder_runs (one nesting level): the sequence is its statements followed by a tail, and every statement that is
   not a use / mod x; / extern crate declaration stays, whole and in order, in the result *)
Theorem reorder_runs_outside : forall (o : opts) (seq : list item) (stmts : list (list item)) (tail : list item),
  stmts_split [] seq = (stmts, tail) ->
  seq = concat stmts ++ tail /\ Sub (concat (filter nonrun stmts) ++ tail) (reorder_runs o seq).
Proof. exact reorder_runs_outside_lemma. Qed.
Print Assumptions reorder_runs_outside.

(* a run of mod / extern crate declarations is replaced by one ITEM string per statement (a permutation: nothing
   dropped, nothing merged) *)
Theorem reorder_items_perm : forall (o : opts) (k : rkind) (sts : list (list item * list item * list item)),
  k <> RUse ->
  Permutation (flush_run o (Some (k, sts)))
              (map (fun e => Tok (item_string (join [SP] (flatten (snd e))))) (rev sts)).
Proof. exact flush_run_items_perm. Qed.
Print Assumptions reorder_items_perm.

(* imports: every path segment and alias of a leaf of a use tree is a token of that tree (or the root marker) *)
Theorem use_leaves_sound : forall (drop_root : bool) (items : list item) (path : list text) (alias : option text),
  In (path, alias) (parse_entries drop_root items) ->
  (forall seg, In seg path -> seg = [] \/ In seg (flatten items)) /\
  (forall a, alias = Some a -> In a (flatten items)).
Proof. exact use_leaves_sound_lemma. Qed.
Print Assumptions use_leaves_sound.

(* ... and use_leaves is exactly the set of rendered leaves (sorting and de-duplication lose nothing) *)
Theorem use_leaves_set : forall (drop_root : bool) (items : list item) (s : text),
  In s (use_leaves drop_root items) <-> exists e, In e (parse_entries drop_root items) /\ s = render_leaf e.
Proof. exact use_leaves_set_lemma. Qed.
Print Assumptions use_leaves_set.

(* P3 (soundness of the identification, partial: the core pipeline, compared as trees).  Step is the closed list
   of normalisations, one constructor each (Model.v); Equiv its reflexive-symmetric-transitive closure under
   nesting.  Every pass of norm_seq is a chain of steps: *)
Theorem norm_seq_sound : forall (o : opts) (ctx : option delim) (items : list item),
  Equiv (sctx_of ctx) items (norm_seq o ctx items).
Proof. exact norm_seq_equiv_lemma. Qed.
Print Assumptions norm_seq_sound.

(* ... hence two programs with the same core normal form (as trees) are related by finitely many normalisation
   steps, forwards or backwards.  Missing for `norm_sound` proper: merge_derives (the prototype also merges
   inside macro matchers, which Equiv does not allow), reorder_runs / import regrouping (canonical strings), the
   atom-level normalisations done while building the tree (doc re-indentation, string continuations, CRLF,
   tuple-index floats, opt-in literal spellings: both sides go through `tree o`), and the injectivity of flatten
   (the checker compares flattened normal forms). *)
Theorem norm_sound_partial : forall (o : opts) (a b : list tok),
  norm_core_items o a = norm_core_items o b ->
  Equiv CTop (tree o (significant a)) (tree o (significant b)).
Proof. exact norm_core_sound_lemma. Qed.
Print Assumptions norm_sound_partial.

(* per-pass: tokens.py rewrite (redundant `;`, empty where / bounds, extern ABI, pub(in ..), block tails, match
   arms, closures, leading pipes, trailing separators) *)
Theorem rewrite_is_steps : forall (o : opts) (ctx : option delim) (seq : list item),
  Equiv (sctx_of ctx) seq (rewrite o ctx seq).
Proof. exact rewrite_equiv. Qed.
Print Assumptions rewrite_is_steps.

(* per-pass: tokens.py glue *)
Theorem glue_is_steps : forall (c : sctx) (seq pre : list item), Equiv c (pre ++ seq) (pre ++ glue seq).
Proof. exact glue_equiv. Qed.
Print Assumptions glue_is_steps.

(* per-pass: tokens.py macro_def, given that each arm body is equivalent, as code in a block, to its normal form *)
Theorem macro_def_is_steps : forall items : list mitem,
  Forall (fun p => forall d s, fst p = Grp d s -> Equiv (CIn DBrace) s (snd p)) items ->
  Equiv CMacro (map fst items) (macro_def items).
Proof. exact macro_def_equiv. Qed.
Print Assumptions macro_def_is_steps.

(* the relation is not too liberal: equivalent trees have the same essential atoms, in the same order *)
Theorem Equiv_preserves_essential : forall (c : sctx) (a b : list item),
  Equiv c a b -> ess (flatten a) = ess (flatten b).
Proof. intros c a b H. rewrite !ess_flatten. apply (Equiv_E c a b H). Qed.
Print Assumptions Equiv_preserves_essential.

(* ---------------------------------------------------------------------------------------------------------- *)
(* the fuel of the closures loop (tokens.py:338, the only fuelled recursion of the model) never runs out: any two
   fuels above the length of the list give the same result, so closures_run's S (length l) is as good as any *)
Theorem closures_fuel_irrelevant : forall (f1 f2 : nat) (res l : list item),
  (length l < f1)%nat -> (length l < f2)%nat -> closures f1 res l = closures f2 res l.
Proof. exact closures_fuel_irrelevant_lemma. Qed.
Print Assumptions closures_fuel_irrelevant.

Theorem closures_run_fuel : forall (l : list item) (k : nat), closures_run l = closures (S (length l) + k) [] l.
Proof. exact closures_run_fuel_lemma. Qed.
Print Assumptions closures_run_fuel.

(* imports: the canonical USE strings of a run are one per (attributes, visibility) class; the leaf strings of a
   class are exactly those parsed from the run's statements with that head (entry_leaves = the rendered
   parse_entries, cf. use_leaves_sound / use_leaves_set): nothing invented, nothing dropped, classes not mixed *)
Theorem flush_run_classes : forall (o : opts) (sts : list run_entry),
  exists cs, flush_run o (Some (RUse, sts)) = map (fun c => Tok (use_string c)) cs /\ UseClasses o (rev sts) cs.
Proof. exact flush_run_use_spec. Qed.
Print Assumptions flush_run_classes.

(* reorder_runs on one level: the level is a sequence of segments and a tail; a segment is a statement kept as it
   is, a run of imports replaced by the strings of its classes, or a run of mod / extern crate declarations
   replaced by a permutation of their strings *)
Theorem reorder_runs_spec : forall (o : opts) (seq : list item), LevelSpec o seq (reorder_runs o seq).
Proof. exact reorder_runs_level. Qed.
Print Assumptions reorder_runs_spec.

(* P2 END TO END (the whole pipeline, reorder_runs included).  T = the tree after the core passes and merge_derives.
   (1) T has the essential atoms of the input, in order (the attribute mark and `derive` not counted);
   (2,3) the atoms of T outside the reorderable runs, at every nesting level, are a subsequence of T's atoms and
   appear, in the same order, in the normal form;  (4) the normal form is T with, at every level, each run replaced
   as reorder_runs_spec says.  A token outside the runs can therefore not be dropped, altered or moved, and inside
   a run of imports the set of (class, leaf) pairs is kept. *)
Theorem norm_preserves_essential : forall (o : opts) (ts : list tok),
  ess_md (flatten (post_core_items o ts)) = ess_md (atoms_of o ts) /\
  Sub (outside o (post_core_items o ts)) (flatten (post_core_items o ts)) /\
  Sub (outside o (post_core_items o ts)) (norm o ts) /\
  TreeSpec o (post_core_items o ts) (norm_items o ts).
Proof. exact norm_preserves_essential_lemma. Qed.
Print Assumptions norm_preserves_essential.

(* the same on essential atoms only: those outside the runs are essential atoms of the input, in order, and are
   essential atoms of the normal form, in order *)
Theorem norm_outside_essential : forall (o : opts) (ts : list tok),
  Sub (ess_md (outside o (post_core_items o ts))) (ess_md (atoms_of o ts)) /\
  Sub (ess_md (outside o (post_core_items o ts))) (ess_md (norm o ts)).
Proof. exact norm_outside_essential_lemma. Qed.
Print Assumptions norm_outside_essential.

(* what is FALSE of the model.  The multiset of essential atoms is not preserved by the whole pipeline (merging
   imports drops duplicates: use a; use a; and use a; have the same normal form) *)
Theorem essential_multiset_refuted : exists (o : opts) (a b : list tok),
  norm o a = norm o b /\ ~ Permutation (ess (atoms_of o a)) (ess (atoms_of o b)).
Proof. exact essential_multiset_refuted_lemma. Qed.
Print Assumptions essential_multiset_refuted.

(* FINDING: the USE string joins the head atoms by blanks, and doc comments contain blanks:
   /// x pub  use a;   and   /// x  pub use a;   have the same normal form (a visibility hidden in a doc comment) *)
Theorem use_head_ambiguous_refuted : exists (o : opts) (a b : list tok),
  norm o a = norm o b /\ In s_pub (atoms_of o b) /\ ~ In s_pub (atoms_of o a).
Proof. exact use_head_ambiguous_refuted_lemma. Qed.
Print Assumptions use_head_ambiguous_refuted.

(* FINDING: macro matchers are not compared verbatim by the whole pipeline: merge_derives merges derives and
   reorder_runs reorders imports inside a matcher too (the core pipeline tells the definitions apart) *)
Theorem matchers_verbatim_refuted : exists (o : opts) (a b a' b' : list tok),
  (norm o a = norm o b /\ norm_core o a <> norm_core o b) /\
  (norm o a' = norm o b' /\ norm_core o a' <> norm_core o b').
Proof. exact matchers_verbatim_refuted_lemma. Qed.
Print Assumptions matchers_verbatim_refuted.

(* ---------------------------------------------------------------------------------------------------------- *)
(* P3 for the whole pipeline.  StepF = Step + merge_derives + import_regroup + reorder_items (Model.v); EquivF its
   closure under nesting, as Equiv.  The core relation embeds: *)
Theorem Equiv_in_EquivF : forall (o : opts) (c : sctx) (a b : list item), Equiv c a b -> EquivF o c a b.
Proof. exact Equiv_EquivF. Qed.
Print Assumptions Equiv_in_EquivF.

(* per-pass: merge_derives and reorder_runs / norm_tree are chains of steps, provided they leave the bodies of
   macro_rules definitions alone (msafe_seq; see matchers_verbatim_refuted for why this cannot be dropped) *)
Theorem merge_derives_is_steps : forall (o : opts) (c : sctx) (seq : list item),
  c <> CMacro -> msafe_seq md_item seq -> EquivF o c seq (merge_derives seq).
Proof. exact merge_derives_equiv. Qed.
Print Assumptions merge_derives_is_steps.

Theorem reorder_runs_is_steps : forall (o : opts) (c : sctx) (seq : list item),
  c <> CMacro -> EquivF o c seq (reorder_runs o seq).
Proof. exact reorder_runs_equiv. Qed.
Print Assumptions reorder_runs_is_steps.

Theorem norm_tree_is_steps : forall (o : opts) (c : sctx) (seq : list item),
  c <> CMacro -> msafe_seq (norm_tree_item o) seq -> EquivF o c seq (norm_tree o seq).
Proof. exact norm_tree_equiv. Qed.
Print Assumptions norm_tree_is_steps.

(* two runs of imports with the same canonical form are equivalent (import_regroup between programs) *)
Theorem import_regroup_by_canonical_form : forall (o : opts) (c : sctx) (pre : list item) (sts1 sts2 : list run_entry)
  (post : list item),
  c <> CMacro -> sts1 <> [] -> sts2 <> [] -> Forall (entry_kind RUse) sts1 -> Forall (entry_kind RUse) sts2 ->
  flush_run o (Some (RUse, rev sts1)) = flush_run o (Some (RUse, rev sts2)) ->
  EquivF o c (pre ++ concat (map snd sts1) ++ post) (pre ++ concat (map snd sts2) ++ post).
Proof. exact import_regroup_lemma. Qed.
Print Assumptions import_regroup_by_canonical_form.

(* norm_sound: two programs with the same normal form (as trees) are related by finitely many steps of the closed
   list, forwards or backwards.  Hypotheses: post_safe (above).  What remains TRUSTED / outside the relation:
   (a) the atom-level normalisations done while building the tree (doc re-indentation, string continuations, CRLF,
   tuple-index floats, opt-in literal spellings): both sides go through `tree o`, and doc_norm / lit_norm / atom are
   specified only by the validated code;  (b) the checker compares flatten (norm_items ..), i.e. `norm`: injectivity
   of flatten on normal forms is not proved;  (c) import_regroup is stated through the canonical strings, whose
   rendering is ambiguous (use_head_ambiguous_refuted).
   The converse does NOT hold: the checker (equality of normal forms) is STRICTLY FINER than EquivF.  EquivF is closed
   under symmetry and transitivity through ill-formed intermediate trees and so relates programs that norm tells
   apart, e.g. a one-element tuple pattern and the parenthesised pattern (Equiv_tuple_comma_refuted below; Equiv is
   included in EquivF by Equiv_in_EquivF).  What separates two programs is norm, never the relation. *)
Theorem norm_sound : forall (o : opts) (a b : list tok),
  post_safe o a -> post_safe o b -> norm_items o a = norm_items o b ->
  EquivF o CTop (tree o (significant a)) (tree o (significant b)).
Proof. exact norm_sound_lemma. Qed.
Print Assumptions norm_sound.

(* one-element tuples.  The checker keeps the trailing comma of a `(` group that is not in argument position (arg_pos)
   and has no other element separator (tuple_commas) (Model.v trim_group; the tp examples of Examples.v).  But Equiv does NOT separate  let (a,) = b;  from
   let (a) = b; : closed under symmetry and transitivity it passes through the ill-formed  let <> (a,) = b;
   (an empty `<>` disappears anywhere, as in the prototype), where the group follows `>`.  Equiv is strictly
   coarser than the checker; what separates the two programs is norm, not the conclusion of norm_sound. *)
Theorem Equiv_tuple_comma_refuted : exists (o : opts) (a b : list item),
  norm_seq o None a <> norm_seq o None b /\ Equiv CTop a b.
Proof. exact Equiv_tuple_comma_refuted_lemma. Qed.
Print Assumptions Equiv_tuple_comma_refuted.
