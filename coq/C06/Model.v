(* C06/Model.v — exit codes, emit-mode selection and the seven emitters, as executable definitions.
   Sources modelled:
     src/formatting.rs:376-407      ReportedErrors, ReportedErrors::add      (flags, flags_add)
     src/bin/main.rs:387-395        format: exit-code expression              (exit_file)
     src/bin/main.rs:323-327        format_string: exit-code expression       (exit_stdin)
     src/config/options.rs:174-193  EmitMode                                  (emit_mode)
     src/bin/main.rs:722-726,757    GetOptsOptions::apply_to                  (apply_to_mode_full)
     src/bin/main.rs:282-300        format_string: emit mode for stdin        (stdin_mode)
     src/lib.rs:518-534             create_emitter                            (create_emitter)
     src/source_file.rs:51-104      write_file                                (original_seen, write_file)
     rustc_span/src/lib.rs normalize_src = remove_bom + normalize_newlines   (rustc_normalize)
     src/emitter/files.rs:18-41, files_with_backup.rs:8-38, stdout.rs:16-31, diff.rs:16-47,
     json.rs:34-53, modified_lines.rs:8-22, checkstyle.rs:22-35               (emit)
     src/formatting.rs:275-306      handle_formatted_file: has_diff => add_diff   (emit_run)
   Definitions only; proofs are in Lemmas.v. *)
From V Require Import Base.Text C12.Model C20.Model.
Local Open Scope N_scope.

(* ------------------------------------------------------------------ *)
(* ReportedErrors, fields in declaration order (formatting.rs:376-394) *)
Record flags : Type := MkFlags {
  f_operational : bool;   (* has_operational_errors      *)
  f_parsing : bool;       (* has_parsing_errors          *)
  f_formatting : bool;    (* has_formatting_errors       *)
  f_macro : bool;         (* has_macro_format_failure    *)
  f_check : bool;         (* has_check_errors            *)
  f_diff : bool;          (* has_diff                    *)
  f_unformatted : bool    (* has_unformatted_code_errors *)
}.

Definition flags_zero : flags := MkFlags false false false false false false false.

(* formatting.rs:398-406 ReportedErrors::add *)
Definition flags_add (a b : flags) : flags :=
  MkFlags (f_operational a || f_operational b) (f_parsing a || f_parsing b)
          (f_formatting a || f_formatting b) (f_macro a || f_macro b)
          (f_check a || f_check b) (f_diff a || f_diff b)
          (f_unformatted a || f_unformatted b).

Definition flags_sum (l : list flags) : flags := fold_left flags_add l flags_zero.

(* main.rs:387-395  fn format: the exit code; [check] is options.check *)
Definition exit_file (f : flags) (check : bool) : N :=
  if f_operational f || f_parsing f || ((f_diff f || f_check f) && check) then 1 else 0.

(* main.rs:323-327  fn format_string: neither has_diff nor options.check is consulted *)
Definition exit_stdin (f : flags) : N :=
  if f_operational f || f_parsing f then 1 else 0.

(* ------------------------------------------------------------------ *)
(* config/options.rs:174-193 EmitMode, declaration order *)
Inductive emit_mode : Type :=
| MFiles | MStdout | MCoverage | MCheckstyle | MJson | MModifiedLines | MDiff.

(* the emitter objects of src/emitter/*.rs *)
Inductive emitter : Type :=
| Files | FilesWithBackup | Stdout | Json | ModifiedLines | Checkstyle | Diff.

(* lib.rs:518-534 create_emitter *)
Definition create_emitter (m : emit_mode) (make_backup : bool) : emitter :=
  match m with
  | MFiles => if make_backup then FilesWithBackup else Files
  | MStdout | MCoverage => Stdout
  | MJson => Json
  | MModifiedLines => ModifiedLines
  | MCheckstyle => Checkstyle
  | MDiff => Diff
  end.

(* main.rs:722-726 and 757-759 apply_to: [toml] is the value the configuration file (or the default, Files)
   gives; --check sets Diff, else --emit sets its mode; AFTERWARDS the --config key=val pairs are applied with
   override_value, so an inline emit_mode wins over --check. *)
Definition apply_to_mode_full (toml : emit_mode) (check : bool) (emit inline : option emit_mode) : emit_mode :=
  let m1 := if check then MDiff else match emit with Some m => m | None => toml end in
  match inline with Some m => m | None => m1 end.

(* the common case: default configuration file value, no inline emit_mode *)
Definition apply_to_mode (check : bool) (emit : option emit_mode) : emit_mode :=
  apply_to_mode_full MFiles check emit None.

(* main.rs:282-300 format_string, executed after load_config/apply_to: None = Err(StdinBadEmit) *)
Definition stdin_mode (check : bool) (emit : option emit_mode) : option emit_mode :=
  if check then Some MDiff
  else match emit with
       | None => Some MStdout
       | Some MStdout => Some MStdout
       | Some MCheckstyle => Some MCheckstyle
       | Some MJson => Some MJson
       | Some _ => None
       end.

(* ------------------------------------------------------------------ *)
(* rustc_span normalize_newlines: each CR LF becomes LF, a lone CR stays *)
Fixpoint normalize_newlines (t : text) : text :=
  match t with
  | [] => []
  | c :: t' =>
      match t' with
      | d :: _ => if is_cr c && is_lf d then normalize_newlines t' else c :: normalize_newlines t'
      | [] => [c]
      end
  end.

Definition BOM : char := 65279.
(* rustc_span remove_bom *)
Definition remove_bom (t : text) : text :=
  match t with
  | c :: t' => if c =? BOM then t' else t
  | [] => []
  end.
(* rustc_span normalize_src: what SourceFile.src holds *)
Definition rustc_normalize (t : text) : text := normalize_newlines (remove_bom t).

(* source_file.rs:86-93 the `original_text` handed to the emitter: the bytes on disk when newline_style is not
   Auto and the name is a real path, otherwise the source map's normalised text *)
Definition original_seen (newline_auto is_stdin : bool) (disk : text) : text :=
  if newline_auto || is_stdin then rustc_normalize disk else disk.

(* ------------------------------------------------------------------ *)
(* what an emitter sends to `output` for one file (content abstracted to what determines it) *)
Inductive out : Type :=
| OutNothing
| OutName                                   (* the file name and LF                                   *)
| OutText (header : bool) (t : text)        (* optional `name:` LF LF, then exactly t                *)
| OutDiff (ms : list (mismatch text))       (* print_diff of these hunks                              *)
| OutNewlineStyle                           (* `Incorrect newline style in name`                      *)
| OutModified (cs : list (chunk text))      (* Display of ModifiedLines                               *)
| OutCheckstyle (errs : list (nat * text))  (* the <file> element with these <error> lines            *)
| OutJsonAcc (entry : option (list (jblock text))).  (* nothing printed; Some = pushed to mismatched_files *)

(* the two configuration bits the emitters read: print_misformatted_file_names (-l) and verbose = Quiet *)
Record ebits : Type := MkBits { b_l : bool; b_quiet : bool }.

Definition nonempty {A} (l : list A) : bool := match l with [] => false | _ :: _ => true end.

Section Emit.
Variable tmp_of bk_of : path -> path.      (* Path::with_extension("tmp" / "bk") *)

(* emit_formatted_file of each emitter: (file-system operations, output, EmitterResult.has_diff) *)
Definition emit (e : emitter) (b : ebits) (name : path) (orig fmt : text) : list op * out * bool :=
  match e with
  | Files =>            (* files.rs:29-40 *)
      (files_ops name orig fmt,
       if eqb_text orig fmt then OutNothing else if b_l b then OutName else OutNothing,
       false)
  | FilesWithBackup =>  (* files_with_backup.rs:18-37 *)
      (backup_ops tmp_of bk_of name orig fmt, OutNothing, false)
  | Stdout =>           (* stdout.rs:25-29 *)
      ([], OutText (negb (b_quiet b)) fmt, false)
  | Diff =>             (* diff.rs:24-46, CONTEXT_SIZE = 3 *)
      let ms := impl_make_diff 3 orig fmt in
      if nonempty ms then ([], if b_l b then OutName else OutDiff ms, true)
      else if eqb_text orig fmt then ([], OutNothing, false)
      else ([], OutNewlineStyle, true)
  | Json =>             (* json.rs:42-52, CONTEXT_SIZE = 0 *)
      let d := impl_make_diff 0 orig fmt in
      ([], OutJsonAcc (if nonempty d then Some (json_blocks d) else None), nonempty d)
  | ModifiedLines =>    (* modified_lines.rs:16-20 *)
      let d := impl_make_diff 0 orig fmt in
      ([], OutModified (modified_lines d), nonempty d)
  | Checkstyle =>       (* checkstyle.rs:30-34: returns EmitterResult::default() *)
      let d := impl_make_diff 0 orig fmt in
      ([], OutCheckstyle (checkstyle_errors d), false)
  end.

Definition e_ops (r : list op * out * bool) : list op := fst (fst r).
Definition e_out (r : list op * out * bool) : out := snd (fst r).
Definition e_has_diff (r : list op * out * bool) : bool := snd r.

(* source_file.rs:51-104 write_file: the original text is chosen before, and independently of, the emitter *)
Definition write_file (e : emitter) (b : ebits) (newline_auto is_stdin : bool)
                      (name : path) (disk fmt : text) : list op * out * bool :=
  emit e b name (original_seen newline_auto is_stdin disk) fmt.

(* formatting.rs:285-301 handle_formatted_file: has_diff => report.add_diff() *)
Definition diff_flag (d : bool) : flags := MkFlags false false false false false d false.

(* one invocation over real files that all format without error: per file (name, bytes on disk, formatted
   text); result: all file-system operations in order, and the accumulated flags *)
Definition input := (path * text * text)%type.
Definition in_name (i : input) : path := fst (fst i).
Definition in_disk (i : input) : text := snd (fst i).
Definition in_fmt (i : input) : text := snd i.

Definition emit_one (e : emitter) (b : ebits) (newline_auto : bool) (i : input) : list op * out * bool :=
  write_file e b newline_auto false (in_name i) (in_disk i) (in_fmt i).

Definition run_ops (e : emitter) (b : ebits) (newline_auto : bool) (ins : list input) : list op :=
  concat (map (fun i => e_ops (emit_one e b newline_auto i)) ins).
Definition run_flags (e : emitter) (b : ebits) (newline_auto : bool) (ins : list input) : flags :=
  flags_sum (map (fun i => diff_flag (e_has_diff (emit_one e b newline_auto i))) ins).
End Emit.

(* the line view of a text that make_diff compares (diff::lines) *)
Definition same_lines (a b : text) : Prop :=
  str_lines a = str_lines b /\ ends_with_lf a = ends_with_lf b.
