(* C06/Lemmas.v — proofs for C06 *)
From V Require Import Base.Text C12.Model C12.Lemmas C20.Model C06.Model.
Local Open Scope N_scope.

(* ------------------------------------------------------------------ *)
(* flags: a join-semilattice *)
Lemma flags_add_assoc a b c : flags_add a (flags_add b c) = flags_add (flags_add a b) c.
Proof. unfold flags_add; cbn. rewrite !orb_assoc. reflexivity. Qed.

Lemma flags_add_comm a b : flags_add a b = flags_add b a.
Proof.
  unfold flags_add.
  rewrite (orb_comm (f_operational a)), (orb_comm (f_parsing a)), (orb_comm (f_formatting a)),
          (orb_comm (f_macro a)), (orb_comm (f_check a)), (orb_comm (f_diff a)), (orb_comm (f_unformatted a)).
  reflexivity.
Qed.

Lemma flags_add_idem a : flags_add a a = a.
Proof. destruct a as [a1 a2 a3 a4 a5 a6 a7]. unfold flags_add; cbn. rewrite !orb_diag. reflexivity. Qed.

Lemma flags_add_zero_l a : flags_add flags_zero a = a.
Proof. destruct a as [a1 a2 a3 a4 a5 a6 a7]. reflexivity. Qed.

Lemma flags_add_zero_r a : flags_add a flags_zero = a.
Proof. rewrite flags_add_comm. apply flags_add_zero_l. Qed.

Lemma flags_semilattice :
  (forall a b c, flags_add a (flags_add b c) = flags_add (flags_add a b) c) /\
  (forall a b, flags_add a b = flags_add b a) /\
  (forall a, flags_add a a = a) /\
  (forall a, flags_add flags_zero a = a).
Proof. repeat split; [apply flags_add_assoc|apply flags_add_comm|apply flags_add_idem|apply flags_add_zero_l]. Qed.

Lemma fold_flags_acc l : forall a, fold_left flags_add l a = flags_add a (fold_left flags_add l flags_zero).
Proof.
  induction l as [|x l IH]; intros a; cbn [fold_left].
  - rewrite flags_add_zero_r. reflexivity.
  - rewrite IH. rewrite (IH (flags_add flags_zero x)). rewrite flags_add_zero_l.
    rewrite flags_add_assoc. reflexivity.
Qed.

Lemma flags_sum_cons x l : flags_sum (x :: l) = flags_add x (flags_sum l).
Proof. unfold flags_sum. cbn [fold_left]. rewrite fold_flags_acc, flags_add_zero_l. reflexivity. Qed.

Lemma flags_sum_nil : flags_sum [] = flags_zero.
Proof. reflexivity. Qed.

Lemma flags_sum_app l1 l2 : flags_sum (l1 ++ l2) = flags_add (flags_sum l1) (flags_sum l2).
Proof.
  induction l1 as [|x l1 IH]; cbn [app].
  - rewrite flags_sum_nil, flags_add_zero_l. reflexivity.
  - rewrite !flags_sum_cons, IH, flags_add_assoc. reflexivity.
Qed.

(* field projections of a sum *)
Lemma flags_sum_field (g : flags -> bool) :
  (forall a b, g (flags_add a b) = g a || g b) -> g flags_zero = false ->
  forall l, g (flags_sum l) = existsb g l.
Proof.
  intros Hadd Hz l. induction l as [|x l IH].
  - rewrite flags_sum_nil. exact Hz.
  - rewrite flags_sum_cons, Hadd, IH. reflexivity.
Qed.

Lemma sum_operational l : f_operational (flags_sum l) = existsb f_operational l.
Proof. apply flags_sum_field; reflexivity. Qed.
Lemma sum_parsing l : f_parsing (flags_sum l) = existsb f_parsing l.
Proof. apply flags_sum_field; reflexivity. Qed.
Lemma sum_check l : f_check (flags_sum l) = existsb f_check l.
Proof. apply flags_sum_field; reflexivity. Qed.
Lemma sum_diff l : f_diff (flags_sum l) = existsb f_diff l.
Proof. apply flags_sum_field; reflexivity. Qed.

(* ------------------------------------------------------------------ *)
(* exit codes *)
Lemma exit_range_lemma f c : (exit_file f c = 0 \/ exit_file f c = 1) /\ (exit_stdin f = 0 \/ exit_stdin f = 1).
Proof.
  unfold exit_file, exit_stdin. split.
  - destruct (f_operational f || f_parsing f || (f_diff f || f_check f) && c); auto.
  - destruct (f_operational f || f_parsing f); auto.
Qed.

Definition no_error (f : flags) : Prop :=
  f_operational f = false /\ f_parsing f = false /\ f_check f = false.

Lemma check_exit_iff_diff f : no_error f -> (exit_file f true = 1 <-> f_diff f = true).
Proof.
  intros (Ho & Hp & Hc). unfold exit_file. rewrite Ho, Hp, Hc. cbn.
  destruct (f_diff f); cbn; split; intros H; try reflexivity; discriminate.
Qed.

Lemma nocheck_exit_zero f : no_error f -> exit_file f false = 0.
Proof.
  intros (Ho & Hp & Hc). unfold exit_file. rewrite Ho, Hp. cbn. rewrite andb_false_r. reflexivity.
Qed.

Lemma error_exit_one f c : f_operational f = true \/ f_parsing f = true -> exit_file f c = 1 /\ exit_stdin f = 1.
Proof.
  unfold exit_file, exit_stdin. intros [H|H]; rewrite H; cbn; try rewrite orb_true_r; cbn; auto.
Qed.

Lemma check_exact_stdin_refuted_lemma :
  exists f : flags, no_error f /\ f_diff f = true /\ exit_file f true = 1 /\ exit_stdin f = 0.
Proof. exists (diff_flag true). vm_compute. repeat split; reflexivity. Qed.

(* ------------------------------------------------------------------ *)
(* mode selection *)
Lemma check_forces_diff_lemma :
  (forall toml emit backup, create_emitter (apply_to_mode_full toml true emit None) backup = Diff) /\
  (forall emit, apply_to_mode true emit = MDiff) /\
  (forall emit, stdin_mode true emit = Some MDiff).
Proof. repeat split. Qed.

Lemma check_inline_override_refuted_lemma :
  exists inline, create_emitter (apply_to_mode_full MFiles true None (Some inline)) false = Files.
Proof. exists MFiles. reflexivity. Qed.

(* ------------------------------------------------------------------ *)
(* emitters *)
Section Emit.
Variable tmp_of bk_of : path -> path.
Notation emit := (emit tmp_of bk_of).

Lemma eqb_text_false a b : eqb_text a b = false <-> a <> b.
Proof.
  split.
  - intros H Heq. apply eqb_text_spec in Heq. congruence.
  - intros H. destruct (eqb_text a b) eqn:E; [|reflexivity]. apply eqb_text_spec in E. contradiction.
Qed.

Lemma nonempty_true {A} (l : list A) : nonempty l = true <-> l <> [].
Proof. destruct l; cbn; split; intros H; try congruence; try discriminate. Qed.

Lemma nonempty_false {A} (l : list A) : nonempty l = false <-> l = [].
Proof. destruct l; cbn; split; intros H; try congruence; try discriminate. Qed.

Lemma only_files_write_lemma e b n o f :
  e_ops (emit e b n o f) <> [] -> e = Files \/ e = FilesWithBackup.
Proof.
  destruct e; auto; intros H; exfalso; apply H; try reflexivity.
  unfold Model.emit, e_ops. cbv zeta.
  destruct (nonempty (impl_make_diff 3 o f)); [reflexivity|]. destruct (eqb_text o f); reflexivity.
Qed.

Lemma files_ops_eq b n o f :
  e_ops (emit Files b n o f) = if eqb_text o f then [] else [Write n f].
Proof. reflexivity. Qed.

Lemma files_touch_iff_lemma b n o f :
  (e_ops (emit Files b n o f) <> [] <-> o <> f) /\
  (o <> f -> e_ops (emit Files b n o f) = [Write n f]) /\
  (o = f -> e_ops (emit Files b n o f) = []).
Proof.
  rewrite files_ops_eq. destruct (eqb_text o f) eqn:E.
  - apply eqb_text_spec in E. repeat split; intros H; try contradiction; try reflexivity.
  - apply eqb_text_false in E. repeat split; intros H; try contradiction; try discriminate; auto.
Qed.

Lemma backup_touch_iff_lemma b n o f :
  (e_ops (emit FilesWithBackup b n o f) <> [] <-> o <> f) /\
  (o <> f -> e_ops (emit FilesWithBackup b n o f) =
             [Remove (tmp_of n); Write (tmp_of n) f; Rename n (bk_of n); Rename (tmp_of n) n]).
Proof.
  cbn. unfold e_ops, backup_ops; cbn. destruct (eqb_text o f) eqn:E.
  - apply eqb_text_spec in E. repeat split; intros H; try contradiction; try reflexivity.
  - apply eqb_text_false in E. repeat split; intros H; try contradiction; try discriminate; auto.
Qed.

Lemma diff_has_diff_eq b n o f :
  e_has_diff (emit Diff b n o f) = nonempty (impl_make_diff 3 o f) || negb (eqb_text o f).
Proof.
  cbn. destruct (nonempty (impl_make_diff 3 o f)); [reflexivity|].
  destruct (eqb_text o f); reflexivity.
Qed.

Lemma diff_has_diff_iff_lemma b n o f :
  e_has_diff (emit Diff b n o f) = true <-> o <> f.
Proof.
  rewrite diff_has_diff_eq, orb_true_iff, nonempty_true, negb_true_iff, eqb_text_false. split.
  - intros [H|H]; [|exact H]. intros Heq. subst. apply H. apply empty_iff_lemma. split; reflexivity.
  - intros H. right. exact H.
Qed.

(* the newline-style branch is taken exactly when the lines agree and the bytes do not *)
Lemma diff_newline_branch_lemma b n o f :
  e_out (emit Diff b n o f) = OutNewlineStyle <-> (same_lines o f /\ o <> f).
Proof.
  cbn. unfold e_out. destruct (impl_make_diff 3 o f) as [|m ms] eqn:E; cbn [nonempty].
  - assert (Hs : same_lines o f) by (apply (empty_iff_lemma 3); exact E).
    destruct (eqb_text o f) eqn:Eq; cbn.
    + apply eqb_text_spec in Eq. split; [discriminate|]. intros [_ H]. contradiction.
    + apply eqb_text_false in Eq. split; auto.
  - split.
    + destruct (b_l b); discriminate.
    + intros [Hs _]. apply (empty_iff_lemma 3) in Hs. unfold impl_make_diff in E. congruence.
Qed.

Lemma lines_has_diff_iff ctx o f : nonempty (impl_make_diff ctx o f) = true <-> ~ same_lines o f.
Proof.
  rewrite nonempty_true. unfold same_lines. rewrite <- (empty_iff_lemma ctx). reflexivity.
Qed.

Lemma json_has_diff_iff_lemma b n o f :
  e_has_diff (emit Json b n o f) = true <-> ~ same_lines o f.
Proof. cbn. apply lines_has_diff_iff. Qed.

Lemma modified_lines_has_diff_iff_lemma b n o f :
  e_has_diff (emit ModifiedLines b n o f) = true <-> ~ same_lines o f.
Proof. cbn. apply lines_has_diff_iff. Qed.

Lemma checkstyle_never_has_diff_lemma b n o f : e_has_diff (emit Checkstyle b n o f) = false.
Proof. reflexivity. Qed.

Lemma files_never_has_diff_lemma b n o f :
  e_has_diff (emit Files b n o f) = false /\ e_has_diff (emit FilesWithBackup b n o f) = false /\
  e_has_diff (emit Stdout b n o f) = false.
Proof. repeat split. Qed.

(* texts that differ only in line terminators: json / modified-lines report nothing *)
Lemma lines_blind_witness :
  exists o f : text, o <> f /\
    (forall b n, e_has_diff (emit Json b n o f) = false /\ e_out (emit Json b n o f) = OutJsonAcc None) /\
    (forall b n, e_has_diff (emit ModifiedLines b n o f) = false /\ e_out (emit ModifiedLines b n o f) = OutModified []) /\
    (forall b n, e_has_diff (emit Diff b n o f) = true).
Proof.
  exists [97; 13; 10], [97; 10]. split; [discriminate|]. repeat split.
Qed.

Lemma same_pair_lemma e b auto stdin n disk f :
  write_file tmp_of bk_of e b auto stdin n disk f = emit e b n (original_seen auto stdin disk) f.
Proof. reflexivity. Qed.

Lemma stdout_is_formatted_lemma b n o f :
  emit Stdout b n o f = ([], OutText (negb (b_quiet b)) f, false) /\
  (forall x, In x (e_ops (emit Files b n o f)) -> x = Write n f) /\
  (forall x, In x (e_ops (emit FilesWithBackup b n o f)) ->
             x = Remove (tmp_of n) \/ x = Write (tmp_of n) f \/ x = Rename n (bk_of n) \/ x = Rename (tmp_of n) n).
Proof.
  split; [reflexivity|]. split.
  - intros x. rewrite files_ops_eq. destruct (eqb_text o f); cbn; intros H; [contradiction|].
    destruct H as [H|H]; [auto|contradiction].
  - intros x. cbn. unfold e_ops, backup_ops; cbn. destruct (eqb_text o f); cbn; intros H; [contradiction|].
    destruct H as [H|[H|[H|[H|H]]]]; auto. contradiction.
Qed.

(* the modified-lines report determines the formatted LINES (not the terminators) *)
Lemma modified_lines_implies_formatted_lemma b n o f cs :
  e_out (emit ModifiedLines b n o f) = OutModified cs ->
  apply_chunks 1 (dlines o) cs = Some (dlines f).
Proof.
  cbn. unfold e_out; cbn. intros H. inversion H as [Hcs]. clear H.
  destruct (diff_lines_valid o f) as (HL & HR & Hbe).
  unfold impl_make_diff. rewrite <- HL, <- HR. apply apply_reconstructs_lemma. exact Hbe.
Qed.

(* ------------------------------------------------------------------ *)
(* whole runs *)
Notation run_ops := (run_ops tmp_of bk_of).
Notation run_flags := (run_flags tmp_of bk_of).
Notation emit_one := (emit_one tmp_of bk_of).

Lemma run_flags_no_error e b auto ins : no_error (run_flags e b auto ins).
Proof.
  unfold no_error, run_flags. rewrite sum_operational, sum_parsing, sum_check.
  repeat split; induction ins as [|i ins IH]; cbn; auto.
Qed.

Lemma run_flags_diff e b auto ins :
  f_diff (run_flags e b auto ins) = existsb (fun i => e_has_diff (emit_one e b auto i)) ins.
Proof.
  unfold run_flags. rewrite sum_diff. induction ins as [|i ins IH]; cbn; [reflexivity|].
  rewrite IH. reflexivity.
Qed.

Lemma concat_nonnil {A} (ls : list (list A)) : concat ls <> [] <-> exists l, In l ls /\ l <> [].
Proof.
  induction ls as [|l ls IH]; cbn.
  - split; [intros H; contradiction H; reflexivity|intros (l & [] & _)].
  - split.
    + intros H. destruct l as [|x l].
      * cbn in H. apply IH in H. destruct H as (l' & Hin & Hne). exists l'. auto.
      * exists (x :: l). split; [auto|discriminate].
    + intros (l' & [Heq|Hin] & Hne).
      * subst. destruct l'; [contradiction|discriminate].
      * destruct l; [|discriminate]. cbn. apply IH. exists l'. auto.
Qed.

Lemma check_exact_files_lemma b auto ins :
  exit_file (run_flags Diff b auto ins) true = 1 <->
  exists i, In i ins /\ original_seen auto false (in_disk i) <> in_fmt i.
Proof.
  rewrite (check_exit_iff_diff _ (run_flags_no_error Diff b auto ins)).
  rewrite run_flags_diff, existsb_exists. split.
  - intros (i & Hin & H). exists i. split; [exact Hin|].
    unfold emit_one, write_file in H. apply diff_has_diff_iff_lemma in H. exact H.
  - intros (i & Hin & H). exists i. split; [exact Hin|].
    unfold emit_one, write_file. apply diff_has_diff_iff_lemma. exact H.
Qed.

Lemma plain_writes_iff b auto ins :
  run_ops Files b auto ins <> [] <->
  exists i, In i ins /\ original_seen auto false (in_disk i) <> in_fmt i.
Proof.
  unfold run_ops. rewrite concat_nonnil. split.
  - intros (l & Hin & Hne). apply in_map_iff in Hin. destruct Hin as (i & Heq & Hin). subst l.
    exists i. split; [exact Hin|]. unfold emit_one, write_file in Hne.
    apply (proj1 (files_touch_iff_lemma _ _ _ _)) in Hne. exact Hne.
  - intros (i & Hin & H). exists (e_ops (emit_one Files b auto i)). split.
    + apply in_map_iff. exists i. auto.
    + unfold emit_one, write_file. apply (proj1 (files_touch_iff_lemma _ _ _ _)). exact H.
Qed.

Lemma check_iff_plain_rewrites_lemma b b' auto ins :
  (exit_file (run_flags Diff b auto ins) true = 1 <-> run_ops Files b' auto ins <> []) /\
  (exit_file (run_flags Diff b auto ins) true = 0 <-> run_ops Files b' auto ins = []).
Proof.
  assert (H1 : exit_file (run_flags Diff b auto ins) true = 1 <-> run_ops Files b' auto ins <> []).
  { rewrite check_exact_files_lemma, plain_writes_iff. reflexivity. }
  split; [exact H1|].
  destruct (exit_range_lemma (run_flags Diff b auto ins) true) as [[H0|H0] _].
  - split; [|intros _; exact H0]. intros _. destruct (run_ops Files b' auto ins) as [|x l] eqn:E; [reflexivity|].
    exfalso. assert (Hne : x :: l <> []) by discriminate. apply H1 in Hne. rewrite H0 in Hne. discriminate.
  - split.
    + intros H. rewrite H0 in H. discriminate.
    + intros H. apply H1 in H0. contradiction.
Qed.

(* no emitter other than the two Files ones performs any operation, whatever the inputs *)
Lemma non_files_run_no_ops e b auto ins :
  e <> Files -> e <> FilesWithBackup -> run_ops e b auto ins = [].
Proof.
  intros H1 H2. unfold run_ops. induction ins as [|i ins IH]; cbn [map concat]; [reflexivity|].
  rewrite IH, app_nil_r.
  destruct (e_ops (emit_one e b auto i)) as [|x l] eqn:E; [reflexivity|].
  exfalso. assert (Hne : e_ops (emit_one e b auto i) <> []) by (rewrite E; discriminate).
  apply only_files_write_lemma in Hne. destruct Hne; contradiction.
Qed.

(* newline_style = Auto: a file differing from its formatted text only in terminators (or a BOM) is neither
   rewritten nor reported *)
Lemma auto_blind_lemma :
  exists disk fmt : text, disk <> fmt /\
    (forall b n, run_ops Files b true [(n, disk, fmt)] = []) /\
    (forall b n, exit_file (run_flags Diff b true [(n, disk, fmt)]) true = 0) /\
    (forall b n, run_ops Files b false [(n, disk, fmt)] = [Write n fmt]) /\
    (forall b n, exit_file (run_flags Diff b false [(n, disk, fmt)]) true = 1).
Proof. exists [97; 13; 10], [97; 10]. split; [discriminate|]. repeat split. Qed.

Lemma files_touch_disk_lemma b n disk f :
  (e_ops (write_file tmp_of bk_of Files b false false n disk f) <> [] <-> disk <> f) /\
  (e_ops (write_file tmp_of bk_of Files b true false n disk f) <> [] <-> rustc_normalize disk <> f).
Proof. split; apply files_touch_iff_lemma. Qed.

(* model-level: under Auto the comparison is against the normalised text, so a formatted text containing CR LF
   that equals the disk bytes is written again *)
Lemma files_touch_only_if_disk_differs_auto_refuted_lemma :
  exists disk f : text, disk = f /\ forall b n, e_ops (write_file tmp_of bk_of Files b true false n disk f) = [Write n f].
Proof. exists [97; 13; 10], [97; 13; 10]. split; reflexivity. Qed.
End Emit.

Lemma check_exit_iff_has_diff_lemma (f : flags) :
  no_error f -> (exit_file f true = 1 <-> f_diff f = true) /\ exit_file f false = 0.
Proof. intros H. split; [apply check_exit_iff_diff|apply nocheck_exit_zero]; exact H. Qed.
