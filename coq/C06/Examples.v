(* C06/Examples.v — non-vacuity: concrete values meeting the hypotheses of the C06 theorems, and the
   _refuted witnesses evaluated *)
From V Require Import Base.Text C12.Model C20.Model C06.Model C06.Lemmas.
Local Open Scope N_scope.

Definition tmp_of (p : path) : path := p + 1.
Definition bk_of (p : path) : path := p + 2.
Definition bits0 : ebits := MkBits false false.
Definition bitsl : ebits := MkBits true false.

(* original `fn main(){}` LF, formatted `fn main() {}` LF *)
Definition t_orig : text := [102;110;32;109;97;105;110;40;41;123;125;10].
Definition t_fmt : text := [102;110;32;109;97;105;110;40;41;32;123;125;10].
Definition t_crlf : text := [102;110;32;109;97;105;110;40;41;32;123;125;13;10].

(* only_files_write: an emitter that does write *)
Example files_writes : e_ops (emit tmp_of bk_of Files bits0 1 t_orig t_fmt) = [Write 1 t_fmt].
Proof. vm_compute. reflexivity. Qed.
Example backup_writes :
  e_ops (emit tmp_of bk_of FilesWithBackup bits0 1 t_orig t_fmt) = [Remove 2; Write 2 t_fmt; Rename 1 3; Rename 2 1].
Proof. vm_compute. reflexivity. Qed.
Example files_unchanged_no_ops : e_ops (emit tmp_of bk_of Files bitsl 1 t_fmt t_fmt) = [].
Proof. vm_compute. reflexivity. Qed.
Example files_l_prints_name : e_out (emit tmp_of bk_of Files bitsl 1 t_orig t_fmt) = OutName.
Proof. vm_compute. reflexivity. Qed.

(* diff_has_diff_iff: both branches that give has_diff = true, and the false one *)
Example diff_hunks : exists ms, emit tmp_of bk_of Diff bits0 1 t_orig t_fmt = ([], OutDiff ms, true) /\ ms <> [].
Proof. eexists. split; [vm_compute; reflexivity|discriminate]. Qed.
Example diff_l_name_only : emit tmp_of bk_of Diff bitsl 1 t_orig t_fmt = ([], OutName, true).
Proof. vm_compute. reflexivity. Qed.
Example diff_newline_style : emit tmp_of bk_of Diff bits0 1 t_crlf t_fmt = ([], OutNewlineStyle, true).
Proof. vm_compute. reflexivity. Qed.
Example diff_same : emit tmp_of bk_of Diff bits0 1 t_fmt t_fmt = ([], OutNothing, false).
Proof. vm_compute. reflexivity. Qed.

(* json / modified-lines: has_diff true on different lines, false on terminator-only differences *)
Example json_differs : e_has_diff (emit tmp_of bk_of Json bits0 1 t_orig t_fmt) = true.
Proof. vm_compute. reflexivity. Qed.
Example json_blind : emit tmp_of bk_of Json bits0 1 t_crlf t_fmt = ([], OutJsonAcc None, false).
Proof. vm_compute. reflexivity. Qed.
Example ml_differs :
  emit tmp_of bk_of ModifiedLines bits0 1 t_orig t_fmt = ([], OutModified [MkChunk 1 1 [removelast t_fmt]], true).
Proof. vm_compute. reflexivity. Qed.
Example ml_blind : emit tmp_of bk_of ModifiedLines bits0 1 t_crlf t_fmt = ([], OutModified [], false).
Proof. vm_compute. reflexivity. Qed.
Example not_same_lines : ~ same_lines t_orig t_fmt.
Proof. intros [H _]. vm_compute in H. discriminate. Qed.
Example same_lines_crlf : same_lines t_crlf t_fmt /\ t_crlf <> t_fmt.
Proof. split; [split; vm_compute; reflexivity|discriminate]. Qed.

(* checkstyle: errors reported, has_diff still false *)
Example checkstyle_reports_but_no_flag :
  emit tmp_of bk_of Checkstyle bits0 1 t_orig t_fmt = ([], OutCheckstyle [(1%nat, removelast t_fmt)], false).
Proof. vm_compute. reflexivity. Qed.

(* check_exit_iff_has_diff / check_exact_files: flags with no error *)
Example no_error_diff : no_error (diff_flag true) /\ exit_file (diff_flag true) true = 1 /\ exit_file (diff_flag true) false = 0.
Proof. vm_compute. repeat split; reflexivity. Qed.
Example check_run_two_files :
  let ins := [(1, t_fmt, t_fmt); (4, t_orig, t_fmt)] in
  exit_file (run_flags tmp_of bk_of Diff bits0 true ins) true = 1 /\
  run_ops tmp_of bk_of Files bits0 true ins = [Write 4 t_fmt] /\
  run_ops tmp_of bk_of Diff bits0 true ins = [].
Proof. vm_compute. repeat split; reflexivity. Qed.
Example check_run_clean :
  let ins := [(1, t_fmt, t_fmt); (4, t_fmt, t_fmt)] in
  exit_file (run_flags tmp_of bk_of Diff bits0 true ins) true = 0 /\ run_ops tmp_of bk_of Files bits0 true ins = [].
Proof. vm_compute. repeat split; reflexivity. Qed.

(* newline_style Auto vs fixed on a CR LF file whose formatted text has LF *)
Example auto_blind :
  run_ops tmp_of bk_of Files bits0 true [(1, t_crlf, t_fmt)] = [] /\
  exit_file (run_flags tmp_of bk_of Diff bits0 true [(1, t_crlf, t_fmt)]) true = 0 /\
  run_ops tmp_of bk_of Files bits0 false [(1, t_crlf, t_fmt)] = [Write 1 t_fmt] /\
  exit_file (run_flags tmp_of bk_of Diff bits0 false [(1, t_crlf, t_fmt)]) true = 1.
Proof. vm_compute. repeat split; reflexivity. Qed.
Example normalize_examples :
  rustc_normalize [65279; 97; 13; 10; 13; 98; 13; 13; 10] = [97; 10; 13; 98; 13; 10].
Proof. vm_compute. reflexivity. Qed.

(* check_exact_stdin_refuted witness *)
Example stdin_check_exit0 : exit_stdin (diff_flag true) = 0 /\ exit_file (diff_flag true) true = 1.
Proof. vm_compute. split; reflexivity. Qed.

(* check_never_modifies_refuted witness: --check --config emit_mode=files *)
Example check_inline_files :
  let e := create_emitter (apply_to_mode_full MFiles true None (Some MFiles)) false in
  e = Files /\ e_ops (emit tmp_of bk_of e bits0 1 t_orig t_fmt) = [Write 1 t_fmt] /\
  exit_file (run_flags tmp_of bk_of e bits0 true [(1, t_orig, t_fmt)]) true = 0.
Proof. vm_compute. repeat split; reflexivity. Qed.

(* mode selection *)
Example modes :
  apply_to_mode false None = MFiles /\ apply_to_mode false (Some MJson) = MJson /\
  apply_to_mode true None = MDiff /\ stdin_mode false None = Some MStdout /\ stdin_mode false (Some MFiles) = None /\
  create_emitter MFiles true = FilesWithBackup /\ create_emitter MCoverage false = Stdout.
Proof. vm_compute. repeat split; reflexivity. Qed.

(* stdout *)
Example stdout_header : emit tmp_of bk_of Stdout bits0 1 t_orig t_fmt = ([], OutText true t_fmt, false).
Proof. vm_compute. reflexivity. Qed.
Example stdout_quiet : emit tmp_of bk_of Stdout (MkBits false true) 1 t_orig t_fmt = ([], OutText false t_fmt, false).
Proof. vm_compute. reflexivity. Qed.

(* error flags force exit 1 whatever --check *)
Example parse_error_exit : exit_file (MkFlags false true false false false false false) false = 1 /\
                           exit_stdin (MkFlags false true false false false false false) = 1.
Proof. vm_compute. split; reflexivity. Qed.
(* has_check_errors counts only under --check; formatting / macro / unformatted flags never change the exit code *)
Example check_error_flag : exit_file (MkFlags false false false false true false false) true = 1 /\
                           exit_file (MkFlags false false false false true false false) false = 0 /\
                           exit_file (MkFlags false false true true false false true) true = 0.
Proof. vm_compute. repeat split; reflexivity. Qed.
