(* C06/Props.v — C06: "`--check` and the stdout, diff, json, checkstyle and modified-lines emitters never modify a
   file; when no error is reported, `--check` exits with 1 exactly when plain `rustfmt` would rewrite at least one
   of the files, and with 0 otherwise. The text printed by `--emit stdout`, the text written by `--emit files`, the
   text produced for the same source on standard input and the text implied by the other emitters' reports are the
   same bytes for the same source and configuration, and files mode touches a file (contents and modification
   time) only if its formatted text differs from what is on disk."
   Scope: the control-flow core (mode selection, emitters, exit code) for every original/formatted text pair; the
   formatter proper is a parameter (the formatted text).  tmp_of / bk_of are Path::with_extension. *)
From V Require Import Base.Text C12.Model C20.Model C06.Model C06.Lemmas.
Local Open Scope N_scope.

(* clause 1: only the two Files emitters ever perform a file-system operation *)
Theorem only_files_write : forall (tmp_of bk_of : path -> path) (e : emitter) (b : ebits) (n : path) (o f : text),
  e_ops (emit tmp_of bk_of e b n o f) <> [] -> e = Files \/ e = FilesWithBackup.
Proof. exact only_files_write_lemma. Qed.
Print Assumptions only_files_write.

(* clause 1, whole runs: an invocation with any other emitter performs no operation at all *)
Theorem non_files_never_modify : forall (tmp_of bk_of : path -> path) (e : emitter) (b : ebits) (auto : bool) (ins : list input),
  e <> Files -> e <> FilesWithBackup -> run_ops tmp_of bk_of e b auto ins = [].
Proof. exact non_files_run_no_ops. Qed.
Print Assumptions non_files_never_modify.

(* clause 1: --check selects the Diff emitter (file path and stdin path), when no --config emit_mode=.. is given *)
Theorem check_forces_diff :
  (forall toml emit backup, create_emitter (apply_to_mode_full toml true emit None) backup = Diff) /\
  (forall emit, apply_to_mode true emit = MDiff) /\
  (forall emit, stdin_mode true emit = Some MDiff).
Proof. exact check_forces_diff_lemma. Qed.
Print Assumptions check_forces_diff.

(* clause 1 REFUTED for `--check --config emit_mode=files`: apply_to applies the inline key=val pairs after
   --check, the Files emitter is created and the file is rewritten (confirmed on the binary: exit 0, file changed) *)
Theorem check_never_modifies_refuted :
  exists inline, create_emitter (apply_to_mode_full MFiles true None (Some inline)) false = Files.
Proof. exact check_inline_override_refuted_lemma. Qed.
Print Assumptions check_never_modifies_refuted.

(* last clause, in terms of the text the emitter is given: one complete write iff original <> formatted *)
Theorem files_touch_iff : forall (tmp_of bk_of : path -> path) (b : ebits) (n : path) (o f : text),
  (e_ops (emit tmp_of bk_of Files b n o f) <> [] <-> o <> f) /\
  (o <> f -> e_ops (emit tmp_of bk_of Files b n o f) = [Write n f]) /\
  (o = f -> e_ops (emit tmp_of bk_of Files b n o f) = []).
Proof. exact files_touch_iff_lemma. Qed.
Print Assumptions files_touch_iff.

(* last clause against the bytes on disk: exact when newline_style is not Auto; with Auto the comparison is
   against rustc's normalised text *)
Theorem files_touch_only_if_disk_differs_partial : forall (tmp_of bk_of : path -> path) (b : ebits) (n : path) (disk f : text),
  (e_ops (write_file tmp_of bk_of Files b false false n disk f) <> [] <-> disk <> f) /\
  (e_ops (write_file tmp_of bk_of Files b true false n disk f) <> [] <-> rustc_normalize disk <> f).
Proof. exact files_touch_disk_lemma. Qed.
Print Assumptions files_touch_only_if_disk_differs_partial.

(* ... so at model level (formatted text a free parameter) the last clause fails under Auto: a formatted text
   with CR LF equal to the disk bytes is written again.  Not known to be reachable with the real formatter. *)
Theorem files_touch_only_if_disk_differs_auto_refuted : forall (tmp_of bk_of : path -> path),
  exists disk f : text, disk = f /\
    forall b n, e_ops (write_file tmp_of bk_of Files b true false n disk f) = [Write n f].
Proof. exact files_touch_only_if_disk_differs_auto_refuted_lemma. Qed.
Print Assumptions files_touch_only_if_disk_differs_auto_refuted.

(* Diff emitter: has_diff iff the two texts differ as bytes *)
Theorem diff_has_diff_iff : forall (tmp_of bk_of : path -> path) (b : ebits) (n : path) (o f : text),
  e_has_diff (emit tmp_of bk_of Diff b n o f) = true <-> o <> f.
Proof. exact diff_has_diff_iff_lemma. Qed.
Print Assumptions diff_has_diff_iff.

(* ... and the `Incorrect newline style` branch is exactly: same lines, different bytes *)
Theorem diff_newline_branch : forall (tmp_of bk_of : path -> path) (b : ebits) (n : path) (o f : text),
  e_out (emit tmp_of bk_of Diff b n o f) = OutNewlineStyle <-> (same_lines o f /\ o <> f).
Proof. exact diff_newline_branch_lemma. Qed.
Print Assumptions diff_newline_branch.

(* Json emitter: has_diff iff the LINES differ *)
Theorem json_has_diff_iff : forall (tmp_of bk_of : path -> path) (b : ebits) (n : path) (o f : text),
  e_has_diff (emit tmp_of bk_of Json b n o f) = true <-> ~ same_lines o f.
Proof. exact json_has_diff_iff_lemma. Qed.
Print Assumptions json_has_diff_iff.

(* ModifiedLines emitter: has_diff iff the LINES differ *)
Theorem modified_lines_has_diff_iff : forall (tmp_of bk_of : path -> path) (b : ebits) (n : path) (o f : text),
  e_has_diff (emit tmp_of bk_of ModifiedLines b n o f) = true <-> ~ same_lines o f.
Proof. exact modified_lines_has_diff_iff_lemma. Qed.
Print Assumptions modified_lines_has_diff_iff.

(* "the text implied by the other emitters' reports are the same bytes" REFUTED for json / modified-lines:
   texts differing only in terminators give an empty report (while Diff reports them) *)
Theorem reports_imply_same_bytes_refuted : forall (tmp_of bk_of : path -> path),
  exists o f : text, o <> f /\
    (forall b n, e_has_diff (emit tmp_of bk_of Json b n o f) = false /\
                 e_out (emit tmp_of bk_of Json b n o f) = OutJsonAcc None) /\
    (forall b n, e_has_diff (emit tmp_of bk_of ModifiedLines b n o f) = false /\
                 e_out (emit tmp_of bk_of ModifiedLines b n o f) = OutModified []) /\
    (forall b n, e_has_diff (emit tmp_of bk_of Diff b n o f) = true).
Proof. exact lines_blind_witness. Qed.
Print Assumptions reports_imply_same_bytes_refuted.

(* what does hold: the modified-lines report applied to the original's lines gives the formatted text's lines *)
Theorem modified_lines_implies_formatted_partial : forall (tmp_of bk_of : path -> path) (b : ebits) (n : path) (o f : text) cs,
  e_out (emit tmp_of bk_of ModifiedLines b n o f) = OutModified cs ->
  apply_chunks 1 (dlines o) cs = Some (dlines f).
Proof. exact modified_lines_implies_formatted_lemma. Qed.
Print Assumptions modified_lines_implies_formatted_partial.

(* Checkstyle returns EmitterResult::default() *)
Theorem checkstyle_never_has_diff : forall (tmp_of bk_of : path -> path) (b : ebits) (n : path) (o f : text),
  e_has_diff (emit tmp_of bk_of Checkstyle b n o f) = false.
Proof. exact checkstyle_never_has_diff_lemma. Qed.
Print Assumptions checkstyle_never_has_diff.

(* exit codes are 0 or 1 *)
Theorem exit_range : forall (f : flags) (c : bool),
  (exit_file f c = 0 \/ exit_file f c = 1) /\ (exit_stdin f = 0 \/ exit_stdin f = 1).
Proof. exact exit_range_lemma. Qed.
Print Assumptions exit_range.

(* clause 2, exit code as a function of the flags: without error flags, --check exits 1 iff has_diff *)
Theorem check_exit_iff_has_diff : forall f : flags,
  no_error f -> (exit_file f true = 1 <-> f_diff f = true) /\ exit_file f false = 0.
Proof. exact check_exit_iff_has_diff_lemma. Qed.
Print Assumptions check_exit_iff_has_diff.

(* clause 2, file path: a --check run over files that format without error exits 1 iff some file's original
   text (as write_file reads it under the run's newline_style) differs from its formatted text *)
Theorem check_exact_files : forall (tmp_of bk_of : path -> path) (b : ebits) (auto : bool) (ins : list input),
  exit_file (run_flags tmp_of bk_of Diff b auto ins) true = 1 <->
  exists i, In i ins /\ original_seen auto false (in_disk i) <> in_fmt i.
Proof. exact check_exact_files_lemma. Qed.
Print Assumptions check_exact_files.

(* clause 2: ... iff a plain run (Files emitter, same configuration) performs at least one write; 0 otherwise *)
Theorem check_iff_plain_rewrites : forall (tmp_of bk_of : path -> path) (b b' : ebits) (auto : bool) (ins : list input),
  (exit_file (run_flags tmp_of bk_of Diff b auto ins) true = 1 <-> run_ops tmp_of bk_of Files b' auto ins <> []) /\
  (exit_file (run_flags tmp_of bk_of Diff b auto ins) true = 0 <-> run_ops tmp_of bk_of Files b' auto ins = []).
Proof. exact check_iff_plain_rewrites_lemma. Qed.
Print Assumptions check_iff_plain_rewrites.

(* the reading "differs from the BYTES on disk" is false under newline_style = Auto: a file that differs from its
   formatted text only in terminators is neither rewritten nor reported; under a fixed style it is both *)
Theorem check_vs_disk_bytes_auto_refuted : forall (tmp_of bk_of : path -> path),
  exists disk fmt : text, disk <> fmt /\
    (forall b n, run_ops tmp_of bk_of Files b true [(n, disk, fmt)] = []) /\
    (forall b n, exit_file (run_flags tmp_of bk_of Diff b true [(n, disk, fmt)]) true = 0) /\
    (forall b n, run_ops tmp_of bk_of Files b false [(n, disk, fmt)] = [Write n fmt]) /\
    (forall b n, exit_file (run_flags tmp_of bk_of Diff b false [(n, disk, fmt)]) true = 1).
Proof. exact auto_blind_lemma. Qed.
Print Assumptions check_vs_disk_bytes_auto_refuted.

(* clause 2 on standard input REFUTED: format_string's exit code ignores has_diff and --check (confirmed on the
   binary: `rustfmt --check` with misformatted stdin prints the diff and exits 0) *)
Theorem check_exact_stdin_refuted :
  exists f : flags, no_error f /\ f_diff f = true /\ exit_file f true = 1 /\ exit_stdin f = 0.
Proof. exact check_exact_stdin_refuted_lemma. Qed.
Print Assumptions check_exact_stdin_refuted.

(* clause 3: write_file computes the original text before and independently of the emitter *)
Theorem same_pair : forall (tmp_of bk_of : path -> path) (e : emitter) (b : ebits) (auto stdin : bool) (n : path) (disk f : text),
  write_file tmp_of bk_of e b auto stdin n disk f = emit tmp_of bk_of e b n (original_seen auto stdin disk) f.
Proof. exact same_pair_lemma. Qed.
Print Assumptions same_pair.

(* clause 3: Stdout prints (after the optional header) exactly the formatted text; every write of the Files
   emitters carries exactly the formatted text *)
Theorem stdout_is_formatted : forall (tmp_of bk_of : path -> path) (b : ebits) (n : path) (o f : text),
  emit tmp_of bk_of Stdout b n o f = ([], OutText (negb (b_quiet b)) f, false) /\
  (forall x, In x (e_ops (emit tmp_of bk_of Files b n o f)) -> x = Write n f) /\
  (forall x, In x (e_ops (emit tmp_of bk_of FilesWithBackup b n o f)) ->
             x = Remove (tmp_of n) \/ x = Write (tmp_of n) f \/ x = Rename n (bk_of n) \/ x = Rename (tmp_of n) n).
Proof. exact stdout_is_formatted_lemma. Qed.
Print Assumptions stdout_is_formatted.

(* ReportedErrors::add is a join: associative, commutative, idempotent, with unit *)
Theorem flags_add_assoc_comm_idem :
  (forall a b c, flags_add a (flags_add b c) = flags_add (flags_add a b) c) /\
  (forall a b, flags_add a b = flags_add b a) /\
  (forall a, flags_add a a = a) /\
  (forall a, flags_add flags_zero a = a).
Proof. exact flags_semilattice. Qed.
Print Assumptions flags_add_assoc_comm_idem.
