(* C06/Run.v — encoders for the correspondence run.
   flags f1..f7 in ReportedErrors declaration order (formatting.rs:376-394): operational, parsing, formatting,
   macro_format_failure, check, diff, unformatted_code.
   emit modes (EmitMode declaration order, config/options.rs:174-193):
     0 Files, 1 Stdout, 2 Coverage, 3 Checkstyle, 4 Json, 5 ModifiedLines, 6 Diff.
   emitters: 0 Files, 1 FilesWithBackup, 2 Stdout, 3 Json, 4 ModifiedLines, 5 Checkstyle, 6 Diff.
   Paths as in C20/Run.v: 1 = FILE, 2 = FILE.tmp, 3 = FILE.bk. *)
From V Require Import Base.Text C12.Model C20.Model C06.Model.
Open Scope N_scope.

Definition tmp_of (p : path) : path := p + 1.
Definition bk_of (p : path) : path := p + 2.

Definition mode_of_N (n : N) : emit_mode :=
  match n with
  | 0 => MFiles | 1 => MStdout | 2 => MCoverage | 3 => MCheckstyle | 4 => MJson | 5 => MModifiedLines | _ => MDiff
  end.
Definition N_of_mode (m : emit_mode) : N :=
  match m with
  | MFiles => 0 | MStdout => 1 | MCoverage => 2 | MCheckstyle => 3 | MJson => 4 | MModifiedLines => 5 | MDiff => 6
  end.
Definition emitter_of_N (n : N) : emitter :=
  match n with
  | 0 => Files | 1 => FilesWithBackup | 2 => Stdout | 3 => Json | 4 => ModifiedLines | 5 => Checkstyle | _ => Diff
  end.
Definition N_of_emitter (e : emitter) : N :=
  match e with
  | Files => 0 | FilesWithBackup => 1 | Stdout => 2 | Json => 3 | ModifiedLines => 4 | Checkstyle => 5 | Diff => 6
  end.

Definition run_exit_file (f1 f2 f3 f4 f5 f6 f7 check : bool) : N :=
  exit_file (MkFlags f1 f2 f3 f4 f5 f6 f7) check.
Definition run_exit_stdin (f1 f2 f3 f4 f5 f6 f7 : bool) : N :=
  exit_stdin (MkFlags f1 f2 f3 f4 f5 f6 f7).

(* (number of file-system operations, has_diff) of one emit_formatted_file call on file 1 *)
Definition run_emit (e : N) (l quiet : bool) (orig fmt : text) : N * bool :=
  let r := emit tmp_of bk_of (emitter_of_N e) (MkBits l quiet) 1 orig fmt in
  (N.of_nat (length (e_ops r)), e_has_diff r).

(* kind of output: 0 nothing, 1 name line, 2 text without header, 3 text with header, 4 diff hunks,
   5 newline-style message, 6 modified lines, 7 checkstyle file element, 8 json (nothing now) *)
Definition run_emit_out (e : N) (l quiet : bool) (orig fmt : text) : N :=
  match e_out (emit tmp_of bk_of (emitter_of_N e) (MkBits l quiet) 1 orig fmt) with
  | OutNothing => 0 | OutName => 1 | OutText false _ => 2 | OutText true _ => 3 | OutDiff _ => 4
  | OutNewlineStyle => 5 | OutModified _ => 6 | OutCheckstyle _ => 7 | OutJsonAcc _ => 8
  end.

Definition run_create_emitter (mode : N) (backup : bool) : N :=
  N_of_emitter (create_emitter (mode_of_N mode) backup).

(* mode chosen by apply_to: toml value, --check, --emit (None or Some mode), --config emit_mode= (None or Some) *)
Definition run_apply_to_mode (toml : N) (check : bool) (emit inline : option N) : N :=
  N_of_mode (apply_to_mode_full (mode_of_N toml) check (option_map mode_of_N emit) (option_map mode_of_N inline)).
(* mode chosen by format_string; None = StdinBadEmit *)
Definition run_stdin_mode (check : bool) (emit : option N) : option N :=
  option_map N_of_mode (stdin_mode check (option_map mode_of_N emit)).

(* the text the emitter receives as original_text *)
Definition run_original_seen (newline_auto is_stdin : bool) (disk : text) : text :=
  original_seen newline_auto is_stdin disk.
