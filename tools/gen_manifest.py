#!/usr/bin/env python3
"""Regenerates /verif/MANIFEST.json from the table below (single source of truth for the claims)."""
import json, os, subprocess
V = os.path.dirname(os.path.dirname(os.path.abspath(__file__)))

TECH = "machine-checked proof in Coq 8.16.1 + model/implementation correspondence run"
CHECKS = {
 "C12": dict(cat="proof", ref="DESIGN.md §5 C12",
   text="Coq theorems over a model of diff::lines, make_diff, ModifiedLines, json/checkstyle line arithmetic and XmlEscaped, for every pair of texts and every context size (no bound); model tied to the code by a correspondence run (exhaustive over small line sequences + seeded random texts) through cfg-guarded hooks; the property's statement is additionally evaluated on the implementation's own results.",
   note="Trusted: Coq kernel + vm_compute; hand-written model (tied by correspondence, not translation); python oracles and json/xml parsers; serde_json escaping and the print/parse round trip of ModifiedLines are checked on the implementation only (not theorems). Known finding class HasXmlForbiddenChar."),
 "C02": dict(cat="proof", ref="DESIGN.md §5 C02",
   text="Partial. Theorems: the fixed-point statements for the passes that the anchors name and that are modelled for other properties (stable sort of a sorted group is the identity, sorting is idempotent for a total preorder, range normalisation is idempotent; the blank-line clamp, trailing-newline cut and newline conversion fixed points are in coq/C08). The universal over programs is SEARCHED, not proved: on a fixed grid (committed pool of 1614 programs x 3 layouts x 4 option presets x 6 widths = 116k cases in thorough, a seed-selected 1/12 in quick) every accepted output is formatted again in process and must be byte-identical and accepted.",
   note="Idempotence of the whole formatter is not a theorem (no model of the 25k-line pretty-printer). 181 genuine non-idempotence findings of the unchanged tree on the grid are listed in known_findings.d/C02.txt, keyed by pool file and first differing line pair."),
 "C03": dict(cat="proof", ref="DESIGN.md §5 C03",
   text="Coq theorems (31) over a faithful model of CharClasses, the two comment/code slice iterators, CommentReducer, changed_comment_content and recover_comment_removed: every char classified once in order, slices tile the text with exact byte offsets and alternate, the panic arm is unreachable, comment slices start with a comment opener; the safety net returns either the source verbatim or a text with the same comment payload (net_sound), a dropped non-trivial comment is always detected, exact class of trivial comments whose loss is not. Tied to the code by a seeded correspondence run through hooks. rewrite_comment (not modelled) is checked to preserve every comment's words on generated comments under wrap_comments x normalize_comments x widths.",
   note="Partial: the universal over programs (every comment at the listed positions reappears) is decided per run by an oracle, not by a theorem; the per-rewriter gap recovery and write_list comment plumbing are not modelled. Proof exposed three weaknesses of the net itself (_refuted lemmas): it panics on an unterminated block comment, ignores a '*' anywhere in a continuation line, and cannot see merged words."),
 "C07": dict(cat="proof", ref="DESIGN.md §5 C07",
   text="Coq theorems (22) over a faithful model of the FormatLines scanner, track_errors and the exit-code expressions: the reported set equals a declarative set of offending lines (scan_exact, both directions), 1-based sorted line numbers, selected-only / never-skipped, exact characterisation of the two error options, a trailing blank forces exit 1; for every character stream, width and option setting. Tied to the code by a seeded correspondence run through hooks (format_lines on a buffer, FormatReport accessor, CharClasses export); the property's text is re-stated independently in python and evaluated on the implementation's reports.",
   note="Trusted: Coq kernel; hand-written model; the (kind,char) stream is the implementation's CharClasses output (C03 covers classification); rendering of the report (format_report_formatter) not covered here; deviations of the code from the plain-English property that the proof exposed are listed as _gap lemmas in coq/C07/Props.v and DESIGN.md."),
 "C08": dict(cat="proof", ref="DESIGN.md §5 C08",
   text="Coq theorems (50) over a model of newline_style.rs, rustc's newline normalisation, the trailing-newline cut, push_vertical_spaces, Indent::{to_string, from_width, block_unindent}, remove_trailing_white_spaces and skip_empty_lines: Windows output has every LF after CR and conversion is idempotent and changes only terminators; exact class (CR CR LF) on which the Unix conversion fails; exact characterisation of Auto detection (and that it never sees a CRLF file as such); one final newline under an explicit guard; clamp bounds and idempotence for lower <= upper; indent shape; fast path = slow path. Tied to the code by a seeded correspondence run through hooks; each clause also judged on the implementation's answers, and the discipline is checked on the emitted text of pool programs (final terminator, no leading blank line, terminators follow newline_style, blank-line runs between sibling items/statements and between list elements).",
   note="Partial for the clauses that concern the whole formatter (that every blank-line run and every indent goes through these functions): decided per run by the byte scan, not by a theorem; the indentation clause is proved for Indent::to_string only and not scanned end to end. Known finding classes: AutoOnCRLF, HasCRCRLF, LowerBoundAboveUpper, forced group separators (15 pool files)."),
 "C10": dict(cat="proof", ref="DESIGN.md §5 C10",
   text="Coq theorems (21) over a rose-tree model of rustfmt's UseTree pipeline (normalize, flatten, merge, merge_rest, merge_use_trees_inner, nest_trailing_self, granularity regrouping, group_imports, run segmentation): the set of denoted imports (path, alias, visibility class, attributes) is preserved by every step and by the whole pipeline for all five granularities and every group/reorder setting, outside explicit decidable bad classes, each of which has a refutation witness; never merges across visibility/attributes/comments; grouping is a permutation; runs never cross a non-import item. For every input, unbounded depth. Tied to the code by a seeded correspondence run (regrouped trees and written groups compared structurally) through hook verif_hooks::imports, and end to end: the emitted text is parsed again and its leaves compared with the input's.",
   note="Trusted: Coq kernel; hand-written model; the denotation `leaves` as the meaning of 'what is imported'; slice::sort modelled by a stable insertion sort; correspondence uses ASCII names and style edition <= 2021 for the ordering (2024 ordering only end to end). Known finding classes: DupAcrossVisibility, DupAcrossAttrs, NestedEmptyList, AliasClash, CommentedEmptyNestedList (all genuine, text-changing, not repaired)."),
 "C11": dict(cat="proof", ref="DESIGN.md §5 C11",
   text="Coq theorems (28): version_sort and compare_items are total preorders for all identifiers (no length bound); a stable sort by a total preorder is a sorted permutation, unique and independent of the algorithm, and independent of the input order whenever Equal implies identical; Equal classes of version_sort characterised (equal chunk lists). Tied to the code by a correspondence run (comparison matrices, sort_by results, compare_items on parsed items) through hooks; the preorder laws and permutation-invariance are also evaluated on the implementation end to end (every permutation of generated groups is formatted).",
   note="Trusted: Coq kernel, hand-written model of sort.rs/compare_items (usize = 64 bit), slice::sort_by is a correct stable sort given a total preorder. Ord for UseTree (imports.rs) is not modelled: import ordering is covered only by the end-to-end permutation oracle. Group boundaries (blank lines, macro_use, skip) not covered by this check. Known finding class: identifiers with a digit run >= 2^64."),
 "C14": dict(cat="proof", ref="DESIGN.md §5 C14",
   text="Coq theorems (38) over a model of config discovery on an abstract file system (nearest ancestor wins, dotted name first, then home, then config dir; --config-path replaces wholesale; missing path is an error), the per-option provenance merge (CLI --config > dedicated flag > file > default of the effective style edition; exact precedence chain for the style edition), alias setters, width heuristics (explicit widths clamped; exact thresholds under which derived widths stay below max_width; scaled with exact rationals) and the --print-config round trip; every clause that is false of the faithful model is a _refuted/_gap lemma with a witness. Tied to the code by running the real rustfmt binary on generated directory layouts, config files, --config lists and flags (--print-config current parsed and compared option by option), exhaustively for scaled over max_width 0..400 (quick) / 0..10000 (thorough).",
   note="Trusted: Coq kernel; hand-written model over 26 options (the 22 with derived behaviour + 4 plain); f32 arithmetic of scaled replaced by exact rationals (validated on [0,10000]); symlinks/canonicalisation, the ignore list and API-only setters not observable through the binary. Seven genuine deviations from the property text are recorded as known findings."),
 "C17": dict(cat="proof", ref="DESIGN.md §5 C17",
   text="Coq theorems (28) over a model of Range and FileLines: queries answer as the UNION of the given ranges for every range list incl. empty ranges, normal form sorted/disjoint/non-adjacent, empty selection selects nothing; model tied to the code by a seeded correspondence run through hook config::file_lines::verif; union semantics also evaluated directly on the implementation's answers.",
   note="Partial: the range algebra and queries are proved; the clauses about emitted bytes (unselected items byte-identical, selected code formatted as without restriction) are not covered by this check yet. Trusted: Coq kernel, hand-written model, Vec::sort correctness, path canonicalisation abstracted."), "C19": dict(cat="proof", ref="DESIGN.md §5 C19",
   text="Coq theorems (25) over a model of scan_diff / run_rustfmt with the two regexes as explicit matchers: for every rendered unified diff satisfying an explicit well-formedness predicate, the scanner returns exactly the post-image ranges of the hunks with count > 0 of the files whose stripped path matches the filter (scan_render), for any number of files and hunks; each conjunct of the predicate is shown necessary by a refutation witness; non-header lines contribute nothing, zero counts are skipped, a missing count is one, an empty result runs nothing, a failing rustfmt fails the tool. Tied to the code by running the real rustfmt-format-diff binary on generated patches and on real diff(1) output with a recording $RUSTFMT stand-in; argv and exit status compared with the model and with ranges recomputed independently from the patch.",
   note="Trusted: Coq kernel; hand-written matchers standing for the regex crate (validated by the correspondence run); \\d modelled as ASCII digit; the user filter is an abstract predicate; u32 overflow = panic (debug build). Two defects repaired (fix: commits), the model is the repaired scanner; remaining refuted conditions (paths with spaces, body line '+++ x', u32 overflow) are outside the property's quantifier or recorded in DESIGN.md."),
 "C20": dict(cat="proof", ref="DESIGN.md §5 C20",
   text="Coq theorems over the backup protocol as a list of file-system operations (non-atomic write, atomic rename): after every prefix of the operations, with the next one interrupted at any byte or failing, the original is complete in FILE or FILE.bk and FILE holds the original or the formatted text, never a partial one; success post-condition; unchanged files get no operation; other paths untouched. Tied to the code by real `rustfmt --backup` processes aborted / faulted at every named crash point (cfg-guarded hook) for every position in a 3-file run, directory contents compared with the model state, and by strace comparing the real order of openat/rename with the model's operation list.",
   note="Trusted: Coq kernel; POSIX assumptions (rename atomic, write not) stated in the model; the mid-write crash is modelled, not provoked; with_extension yields three distinct names (hypothesis of the theorems: two inputs x.rs and x.foo would share x.tmp/x.bk, a pre-existing x.bk is overwritten — outside the property's text)."),
}
ALL = ["C%02d" % i for i in range(1, 21)]
NA_REASON = "check not built yet (construction in progress; DESIGN.md §11 gives the order)"

def main():
    hooks = subprocess.run(["git", "-C", "/repo", "log", "--format=%h %s"], capture_output=True, text=True).stdout.split("\n")
    hook_commits = [l.split()[0] for l in hooks if "verif hooks" in l]
    m = {
     "version": 1,
     "setup_cmd": "./setup.sh",
     "hooks": {"guard": "rustfmt_verif",
               "enable": "RUSTFLAGS=\"--cfg rustfmt_verif\" (harness/.cargo/config.toml sets it; checks build /repo's binaries with it too)",
               "baseline_off_cmd": "cd /repo && cargo nextest run --workspace --no-fail-fast --tool-config-file pb:/w/lib/nextest.toml --profile pb --test-threads 8 --offline || cargo test --workspace --no-fail-fast --offline",
               "source_commits": hook_commits, "add_only": True},
     "engines": [
       {"name": "coq", "path": "coq/", "serves_properties": sorted(CHECKS), "kind_free_text": "Coq 8.16.1 development: hand-written Gallina models + theorems per property (coq/Cxx/{Model,Lemmas,Props,Examples,Run}.v), evaluated by vm_compute for the correspondence runs"},
       {"name": "vh", "path": "harness/", "serves_properties": sorted(CHECKS), "kind_free_text": "Rust harness crate with a path dependency on /repo, built with --cfg rustfmt_verif; runs the real functions on generated cases"}],
     "checks": [],
     "not_applicable": [{"property_id": p, "reason": NA_REASON} for p in ALL if p not in CHECKS],
     "notes": "See DESIGN.md. Entry point: ./check Cxx --tier quick|thorough [--replay PATH]. known_findings.txt lists recorded findings and fixes.",
    }
    for p in sorted(CHECKS):
        c = CHECKS[p]
        m["checks"].append({
          "property_id": p, "quick_cmd": "./check %s --tier quick" % p, "thorough_cmd": "./check %s --tier thorough" % p,
          "evidence_file": "evidence/%s.json" % p, "replay_cmd_template": "./check %s --replay {path}" % p, "engine": "coq",
          "level_claimed": {"category": c["cat"], "text": c["text"], "design_ref": c["ref"]},
          "level_note": c["note"], "technique": c.get("tech", TECH)})
    json.dump(m, open(os.path.join(V, "MANIFEST.json"), "w"), indent=1)
    try:
        import jsonschema
        jsonschema.validate(m, json.load(open("/root/.vp/MANIFEST.schema.json")))
        print("MANIFEST.json valid,", len(m["checks"]), "checks")
    except ImportError:
        print("MANIFEST.json written (jsonschema not importable here)")

if __name__ == "__main__":
    main()
