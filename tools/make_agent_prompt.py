#!/usr/bin/env python3
"""usage: make_agent_prompt.py Cxx... : write /tmp/prop-Cxx.txt and /tmp/agent-Cxx.txt (template + the needs of every kept seeded change)"""
import json, os, sys, glob
props = {}
for l in open("/verif/properties.jsonl"):
    d = json.loads(l); props[d["id"]] = d
tmpl = open("/verif/tools/mutant_agent_prompt.txt").read()
for p in sys.argv[1:]:
    d = props[p]
    if not os.path.exists("/tmp/prop-%s.txt" % p):
        open("/tmp/prop-%s.txt" % p, "w").write("PROPERTY %s — %s\n\nStatement: %s\n\nQuantifier (what it ranges over): %s\n\nWhy the existing tests cannot settle it: %s\n\nAnchors in the code: %s\n" % (p, d["title"], d["statement"], d["quantifier"], d["why_tests_cant"], json.dumps(d["anchors"], indent=1)))
    tried = []
    for m in sorted(glob.glob("/verif/seeded/%s-*/meta.json" % p)):
        j = json.load(open(m)); tried.append("(%s) %s" % (j["name"], j.get("needs_to_manifest", "")))
    open("/tmp/agent-%s.txt" % p, "w").write(tmpl.replace("WT", "/tmp/mut-%s" % p).replace("ALREADY", "; ".join(tried) or "nothing yet"))
    print(p, len(tried), "tried")
