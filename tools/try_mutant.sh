#!/bin/sh
# usage: tools/try_mutant.sh PATCH CHECK... : apply PATCH to /repo, run each check's quick tier, restore /repo
P="$1"; shift
cd /repo && git apply --check "$P" || { echo "patch does not apply"; exit 2; }
git -C /repo apply "$P"
cd /verif
for c in "$@"; do
  ./check "$c" --tier quick > /tmp/mut_$c.out 2>&1
  rc=$?
  echo "== $c rc=$rc violations=$(grep -c '^VIOLATION' /tmp/mut_$c.out) tie=$(grep -c 'no-failing-input-found' /tmp/mut_$c.out)"
  grep -A1 '^VIOLATION' /tmp/mut_$c.out | grep -v '^VIOLATION\|^--' | cut -c1-260 | head -3
done
git -C /repo checkout -- .
git -C /repo status --short | head -3
