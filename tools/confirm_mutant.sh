#!/bin/sh
# usage: confirm_mutant.sh WORKTREE K : confirm mutant K of WORKTREE/out/K myself:
#  the patch applies and the suite passes with it; the demo fails with it and passes on the unchanged HEAD binary
WT="$1"; K="$2"; D="$WT/out/$K"
export CARGO_NET_OFFLINE=true CARGO_TARGET_DIR="$WT/target"
export LD_LIBRARY_PATH=$(ls -d /root/.rustup/toolchains/nightly-2025-04-02-*/lib)
cd "$WT" && git checkout -q -- . && git apply "$D/patch.diff" || { echo "APPLY FAILED"; exit 2; }
SUITE=$(cargo nextest run --workspace --no-fail-fast --offline 2>&1 | grep -E "^\s+Summary" | tail -1)
echo "suite with mutant: $SUITE"
DEMO=$(ls "$D"/demo.sh 2>/dev/null)
if [ -n "$DEMO" ]; then
  RUSTFMT="$WT/target/debug/rustfmt" bash "$DEMO" "$WT/target/debug/rustfmt" > "$D/confirm_mutant.log" 2>&1; echo "demo with mutant: exit $?"
  RUSTFMT=/verif/.cache/target-bins/debug/rustfmt bash "$DEMO" /verif/.cache/target-bins/debug/rustfmt > "$D/confirm_head.log" 2>&1; echo "demo on HEAD: exit $?"
else
  echo "no demo.sh (unit-test demo only)"
fi
git checkout -q -- .
