#!/bin/sh
# usage: tools/regress_mutants.sh [NAME-PATTERN] : apply every kept seeded change to /repo, run the quick check of its
# property, undo; prints one line per change (rc 1 with a concrete input expected). Do not run while other jobs use /repo.
cd /verif
for d in seeded/${1:-*}/; do
  n=$(basename "$d"); p=${n%%-*}
  [ -f "$d/patch.diff" ] || { echo "$n: obsolete (no patch.diff; see meta.json)"; continue; }
  git -C /repo apply --check "$PWD/$d/patch.diff" 2>/dev/null || { echo "$n: PATCH DOES NOT APPLY"; continue; }
  git -C /repo apply "$PWD/$d/patch.diff"
  ./check "$p" --tier quick > /tmp/regress_$n.out 2>&1; rc=$?
  git -C /repo checkout -- .
  v=$(grep -c '^VIOLATION' /tmp/regress_$n.out); t=$(grep -c 'no-failing-input-found' /tmp/regress_$n.out)
  echo "$n: rc=$rc violations=$v tie_only=$t"
done
