#!/bin/sh
# the repository's own test suite with the guard OFF (MANIFEST.hooks.baseline_off_cmd); run after every change to /repo
cd /repo && cargo nextest run --workspace --no-fail-fast --tool-config-file pb:/w/lib/nextest.toml --profile pb --test-threads 8 --offline 2>&1 | tail -6
