#!/usr/bin/env python3
"""Rewrite the table between the CATCH-MATRIX markers of DESIGN.md from seeded/*/meta.json."""
import glob, json, os, re
rows = []
for d in sorted(glob.glob("/verif/seeded/*/")):
    m = json.load(open(os.path.join(d, "meta.json")))
    det = m["detected_by"].replace("|", "/").replace("\n", " ")
    if m.get("obsolete"):
        det += " — OBSOLETE: " + m["obsolete"].replace("|", "/")
    missed = "missed before" in det or "missed at first" in det
    weak = "no-failing-input-found" in det or "only the correspondence broke" in det
    first = "missed at first" if missed else ("no concrete input at first" if weak else "caught as first built")
    rows.append("| %s | %s | %s | %s |" % (os.path.basename(d.rstrip("/")), m["needs_to_manifest"].replace("|", "/"), first, det))
tab = "| seeded change | needs, to manifest | first run | caught by (after strengthening where needed) |\n|---|---|---|---|\n" + "\n".join(rows)
n = len(rows)
nm = sum(1 for r in rows if "| missed at first |" in r)
nw = sum(1 for r in rows if "| no concrete input at first |" in r)
tab += "\n\n%d seeded changes kept; %d were missed by the checks as first built and %d were reported only as a broken tie without a failing input; all %d are now reported with a concrete failing input by the quick tier of the property's own check.\n" % (n, nm, nw, n)
s = open("/verif/DESIGN.md").read()
s = re.sub(r"<!-- CATCH-MATRIX-BEGIN -->.*<!-- CATCH-MATRIX-END -->", "<!-- CATCH-MATRIX-BEGIN -->\n" + tab.replace("\\", "\\\\") + "<!-- CATCH-MATRIX-END -->", s, flags=re.S)
open("/verif/DESIGN.md", "w").write(s)
print(n, "rows")
