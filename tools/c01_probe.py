#!/usr/bin/env python3
"""usage: c01_probe.py FILE k=v ... : format FILE in process (current harness build) and judge the pair with the C01 validator"""
import sys, json
sys.path.insert(0, "/verif")
from checks import common, c01
text = open(sys.argv[1]).read()
cfg = [a.split("=", 1) for a in sys.argv[2:]]
r = common.run_vh_pool("pool", [{"text": text, "config": cfg, "again": True, "lex": True}])[0]
print("OUT:\n" + str(r.get("out")))
if r.get("out") is None:
    print(r); sys.exit()
oc = c01.opts_code(cfg)
a = c01.run_model([(oc, r["in_tokens"])], full=True)[0]
b = c01.run_model([(oc, r["out_tokens"])], full=True)[0]
print("EQUAL" if a == b else "DIFFER at %d: %r / %r" % (c01.first_diff(a, b), a[max(0, c01.first_diff(a, b) - 3):c01.first_diff(a, b) + 4], b[max(0, c01.first_diff(a, b) - 3):c01.first_diff(a, b) + 4]))
