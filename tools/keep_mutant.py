#!/usr/bin/env python3
"""usage: keep_mutant.py PROP NAME WORKTREE K "needs" "caught_by" : copy a confirmed seeded change into /verif/seeded/<PROP>-<NAME>/"""
import json, os, shutil, sys
prop, name, wt, k, needs, caught = sys.argv[1:7]
src = os.path.join(wt, "out", k)
dst = os.path.join("/verif/seeded", "%s-%s" % (prop, name))
os.makedirs(dst, exist_ok=True)
for f in os.listdir(src):
    if f.endswith((".diff", ".sh", ".rs", ".md", ".py")):
        shutil.copy(os.path.join(src, f), os.path.join(dst, f))
meta = {"property": prop, "name": name, "breaks": open("/tmp/prop-%s.txt" % prop).read().split("\n")[0],
        "needs_to_manifest": needs,
        "confirmed_by_me": "tools/confirm_mutant.sh %s %s: patch applies, 289/289 tests pass with it, demo.sh exits 1 with the change and 0 on HEAD" % (wt, k),
        "detected_by": caught,
        "how_run": "tools/try_mutant.sh seeded/%s-%s/patch.diff <checks> (git -C /repo apply; ./check ... --tier quick; git -C /repo checkout -- .)" % (prop, name)}
json.dump(meta, open(os.path.join(dst, "meta.json"), "w"), indent=1)
print("kept", dst)
