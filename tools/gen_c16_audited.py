#!/usr/bin/env python3
"""(Re)write coq/C16/Audited.v from the CURRENT /repo/src: run only on a tree whose subtraction sites have been reviewed
(the pinned snapshot plus the fix commits); never at check time."""
import os, sys
sys.path.insert(0, "/verif")
from checks import common, c16
ok, log, _ = common.build_harness()
assert ok, log
sites = c16.scan_sub_sites()
L = ["(* C16/Audited.v -- the audited inventory of raw subtractions (binary `-`, `-=`) in /repo/src outside test and hook code,",
     "   written by tools/gen_c16_audited.py from the tree at the time of the audit (pinned snapshot + fix commits).",
     "   These sites are NOT proved safe; they are what the margin sweep and the mutation search of checks/c16.py exercise.",
     "   Gen/C16/SubSites.v (regenerated on every run) proves that the working tree has no site outside this list. *)",
     "From Coq Require Import List String.", "Import ListNotations.", "Open Scope string_scope.", "Definition audited : list string := ["]
L.append(";\n".join('  "%s"' % x for x in sites))
L.append("].")
open(os.path.join(common.COQ, "C16", "Audited.v"), "w").write("\n".join(L) + "\n")
print(len(sites), "sites")
