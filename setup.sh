#!/bin/sh
# MANIFEST.setup_cmd: build the framework from files on disk only (offline).
set -e
cd "$(dirname "$0")"
export CARGO_NET_OFFLINE=true
mkdir -p .cache evidence
# 1. Coq development (full .vo build)
python3 - <<'PY'
import sys
sys.path.insert(0, '.')
from checks import common
from checks import gen_ties
gen_ties.gen_all()          # coq/Gen/*/..Ops.v regenerated from /repo/src (tie theorems)
common.write_coqproject()
PY
(cd coq && timeout 3000 make -j16 2>&1 | tail -5)
# 2. harness against /repo's working tree, hooks on
(cd harness && CARGO_TARGET_DIR=/verif/.cache/target cargo build --offline 2>&1 | tail -2)
# 3. rustfmt's own binaries from the working tree, hooks on
(cd /repo && CARGO_TARGET_DIR=/verif/.cache/target-bins RUSTFLAGS="--cfg rustfmt_verif" cargo build --offline --bins 2>&1 | tail -2)
# 4. the frozen reference harness (pinned sources under /verif/frozen; C09)
(cd harness_frozen && CARGO_TARGET_DIR=/verif/.cache/target-frozen cargo build --offline 2>&1 | tail -2)
(cd frozen && CARGO_TARGET_DIR=/verif/.cache/target-frozen cargo build --offline --bin rustfmt 2>&1 | tail -2)
# 5. the extracted C01 validator (coq/C01/Extract.v wrote ocaml/c01/norm.ml during step 1)
sh ocaml/c01/build.sh | tail -1
echo setup done
