//! Reference harness: the PINNED rustfmt sources (/verif/frozen = /repo at f8b5722), public API only.
//! Reads {"text":..,"config":[[k,v]..]} per line, prints {"out":..,"no_errors":bool} per line.
#![feature(rustc_private)]
extern crate rustc_driver;

use rustfmt_nightly::{Config, EmitMode, Input, Session, Verbosity};
use serde_json::{json, Value};
use std::io::{self, BufRead, Write};

fn run(v: &Value) -> Value {
    let mut c = Config::default();
    if let Some(a) = v["config"].as_array() {
        for p in a {
            c.override_value(p[0].as_str().unwrap(), p[1].as_str().unwrap());
        }
    }
    c.set().emit_mode(EmitMode::Stdout);
    c.set().verbose(Verbosity::Quiet);
    let mut out: Vec<u8> = Vec::new();
    let (res, ok) = {
        let mut session = Session::new(c, Some(&mut out));
        let res = session.format(Input::Text(v["text"].as_str().unwrap().to_owned()));
        let ok = session.has_no_errors();
        (res, ok)
    };
    match res {
        Ok(report) => json!({"out": String::from_utf8_lossy(&out), "no_errors": ok, "warnings": report.has_warnings()}),
        Err(e) => json!({"out": null, "err": format!("{e}")}),
    }
}

fn main() {
    let sink: Box<dyn Write> = match std::env::var("VH_OUT_FD") {
        Ok(fd) => Box::new(std::fs::OpenOptions::new().write(true).open(format!("/proc/self/fd/{fd}")).expect("VH_OUT_FD")),
        Err(_) => Box::new(io::stdout()),
    };
    let mut out = io::LineWriter::new(sink);
    for line in io::stdin().lock().lines() {
        let line = line.unwrap();
        if line.trim().is_empty() {
            continue;
        }
        let v: Value = serde_json::from_str(&line).expect("bad case json");
        let r = std::panic::catch_unwind(|| run(&v)).unwrap_or_else(|_| json!({"panic": true}));
        writeln!(out, "{}", r).unwrap();
    }
}
