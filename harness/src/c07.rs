use crate::fmt;
use rustfmt_nightly::verif_hooks as hooks;
use rustfmt_nightly::{FileLines, FileName, Range};
use serde_json::{json, Value};
use std::collections::HashMap;

/// case: {"text": str, "config": [[k,v]..], "skipped": [[lo,hi]..], "sel": null | [[lo,hi]..]}
pub fn run(v: &Value) -> Value {
    let mut cfg = match fmt::config_of(&v["config"]) {
        Ok(c) => c,
        Err(e) => return json!({"config_error": e}),
    };
    if let Some(sel) = v["sel"].as_array() {
        let mut m: HashMap<FileName, Vec<Range>> = HashMap::new();
        m.insert(
            FileName::Stdin,
            sel.iter()
                .map(|r| Range::new(r[0].as_u64().unwrap() as usize, r[1].as_u64().unwrap() as usize))
                .collect(),
        );
        cfg.set().file_lines(FileLines::from_ranges(m));
    }
    let skipped: Vec<(usize, usize)> = v["skipped"]
        .as_array()
        .map(|a| a.iter().map(|r| (r[0].as_u64().unwrap() as usize, r[1].as_u64().unwrap() as usize)).collect())
        .unwrap_or_default();
    let text = v["text"].as_str().unwrap();
    let classes: Vec<Value> = hooks::char_classes(text).into_iter().map(|(k, c)| json!([k, c as u32])).collect();
    let (buf, entries, flags) = hooks::format_lines(text, &skipped, &cfg);
    json!({
        "classes": classes,
        "errors": entries.iter().map(|e| json!([e.1, e.2, e.3, e.4, e.5, e.6])).collect::<Vec<_>>(),
        "kept": buf.chars().count(),
        "flags": flags,
    })
}
