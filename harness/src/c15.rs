//! One Session formatting several inputs in sequence through the public API
//! (`Session::new`, `Session::format`, `Session::override_config`, the `has_*` accessors).
//! case: {"config": [[k,v]..], "emit": "stdout"|"json"|"checkstyle"|"diff",
//!        "inputs": [{"text": str, "local": [[k,v]..] | null}, ..]}
//! result: {"outs": [bytes written to the session's output during input i],
//!          "flags": [flags after input i], "errs": [Err text | null],
//!          "tab_spaces": [session.config.tab_spaces() after input i], "footer": bytes written on drop}
use rustfmt_nightly::{Config, EmitMode, Input, Session, Verbosity};
use serde_json::{json, Value};
use std::cell::RefCell;
use std::io::{self, Write};
use std::rc::Rc;

struct Shared(Rc<RefCell<Vec<u8>>>);

impl Write for Shared {
    fn write(&mut self, buf: &[u8]) -> io::Result<usize> {
        self.0.borrow_mut().extend_from_slice(buf);
        Ok(buf.len())
    }
    fn flush(&mut self) -> io::Result<()> {
        Ok(())
    }
}

fn pairs_of(v: &Value) -> Vec<(String, String)> {
    let mut pairs = Vec::new();
    if let Some(a) = v.as_array() {
        for p in a {
            pairs.push((p[0].as_str().unwrap().to_owned(), p[1].as_str().unwrap().to_owned()));
        }
    }
    pairs
}

fn config_of(v: &Value, emit: EmitMode) -> Result<Config, String> {
    let mut c = rustfmt_nightly::verif_hooks::config_from_pairs(&pairs_of(v))?;
    c.set().emit_mode(emit);
    c.set().verbose(Verbosity::Quiet);
    Ok(c)
}

fn flags_of<T: Write>(s: &Session<'_, T>) -> Value {
    json!({
        "operational": s.has_operational_errors(),
        "parsing": s.has_parsing_errors(),
        "formatting": s.has_formatting_errors(),
        "check": s.has_check_errors(),
        "diff": s.has_diff(),
        "unformatted": s.has_unformatted_code_errors(),
        "no_errors": s.has_no_errors(),
    })
}

pub fn run(v: &Value) -> Value {
    let emit = match v["emit"].as_str().unwrap_or("stdout") {
        "json" => EmitMode::Json,
        "checkstyle" => EmitMode::Checkstyle,
        "diff" => EmitMode::Diff,
        _ => EmitMode::Stdout,
    };
    let cfg = match config_of(&v["config"], emit) {
        Ok(c) => c,
        Err(e) => return json!({"config_error": e}),
    };
    let buf = Rc::new(RefCell::new(Vec::new()));
    let mut sink = Shared(buf.clone());
    let mut outs = Vec::new();
    let mut flags = Vec::new();
    let mut errs = Vec::new();
    let mut tabs = Vec::new();
    let header;
    {
        let mut session = Session::new(cfg, Some(&mut sink));
        header = String::from_utf8_lossy(&buf.borrow()).into_owned();
        for inp in v["inputs"].as_array().unwrap() {
            let before = buf.borrow().len();
            let text = inp["text"].as_str().unwrap().to_owned();
            let res = if inp["local"].is_array() {
                match config_of(&inp["local"], emit) {
                    Ok(local) => session.override_config(local, |s| s.format(Input::Text(text))),
                    Err(e) => return json!({"config_error": e}),
                }
            } else {
                session.format(Input::Text(text))
            };
            errs.push(match res {
                Ok(_) => Value::Null,
                Err(e) => json!(format!("{e}")),
            });
            outs.push(String::from_utf8_lossy(&buf.borrow()[before..]).into_owned());
            flags.push(flags_of(&session));
            tabs.push(session.config.tab_spaces());
        }
    }
    let total: usize = header.len() + outs.iter().map(|s| s.len()).sum::<usize>();
    let footer = String::from_utf8_lossy(&buf.borrow()[total.min(buf.borrow().len())..]).into_owned();
    json!({"header": header, "outs": outs, "flags": flags, "errs": errs, "tab_spaces": tabs, "footer": footer})
}
