//! End-to-end runs on whole programs: format, format again, lex input and output.
use crate::fmt;
use serde_json::{json, Value};

extern crate rustc_lexer;
use rustc_lexer::{DocStyle, LiteralKind, TokenKind};

/// (kind, text): kind is one of
///  ws, lc (line comment), bc (block comment), dlo/dli (outer/inner line doc), dbo/dbi (block doc),
///  id, rid (raw ident), lt (lifetime), lit:<k> (literal of kind k), p (punctuation / delimiter), unk
pub fn lex(text: &str) -> Vec<(String, String)> {
    let mut out = Vec::new();
    let mut pos = 0usize;
    if let Some(n) = rustc_lexer::strip_shebang(text) {
        out.push(("shebang".to_owned(), text[..n].to_owned()));
        pos = n;
    }
    for tok in rustc_lexer::tokenize(&text[pos..]) {
        let len = tok.len as usize;
        let s = &text[pos..pos + len];
        pos += len;
        let kind: String = match tok.kind {
            TokenKind::Whitespace => "ws".into(),
            TokenKind::LineComment { doc_style: None } => "lc".into(),
            TokenKind::LineComment { doc_style: Some(DocStyle::Outer) } => "dlo".into(),
            TokenKind::LineComment { doc_style: Some(DocStyle::Inner) } => "dli".into(),
            TokenKind::BlockComment { doc_style: None, .. } => "bc".into(),
            TokenKind::BlockComment { doc_style: Some(DocStyle::Outer), .. } => "dbo".into(),
            TokenKind::BlockComment { doc_style: Some(DocStyle::Inner), .. } => "dbi".into(),
            TokenKind::Ident | TokenKind::InvalidIdent | TokenKind::UnknownPrefix => "id".into(),
            TokenKind::RawIdent => "rid".into(),
            TokenKind::Lifetime { .. } | TokenKind::RawLifetime | TokenKind::UnknownPrefixLifetime => "lt".into(),
            TokenKind::Literal { kind, .. } => {
                let k = match kind {
                    LiteralKind::Int { .. } => "int",
                    LiteralKind::Float { .. } => "float",
                    LiteralKind::Char { .. } => "char",
                    LiteralKind::Byte { .. } => "byte",
                    LiteralKind::Str { .. } => "str",
                    LiteralKind::ByteStr { .. } => "bstr",
                    LiteralKind::CStr { .. } => "cstr",
                    LiteralKind::RawStr { .. } => "rstr",
                    LiteralKind::RawByteStr { .. } => "rbstr",
                    LiteralKind::RawCStr { .. } => "rcstr",
                };
                format!("lit:{k}")
            }
            TokenKind::Unknown | TokenKind::GuardedStrPrefix => "unk".into(),
            TokenKind::Eof => continue,
            _ => "p".into(),
        };
        out.push((kind, s.to_owned()));
    }
    out
}

fn toks(v: Vec<(String, String)>) -> Value {
    Value::Array(v.into_iter().map(|(k, s)| json!([k, s])).collect())
}

/// case: {"text": str, "config": [[k,v]..], "again": bool, "lex": bool}
pub fn run(v: &Value) -> Value {
    let text = v["text"].as_str().unwrap();
    let cfg = match fmt::config_of(&v["config"]) {
        Ok(c) => c,
        Err(e) => return json!({"config_error": e}),
    };
    let r = fmt::format_text(text, cfg);
    let mut res = json!({"out": r.output, "flags": r.flags, "err": r.err, "report": r.report});
    if v["entries"].as_bool().unwrap_or(false) {
        res["entries"] = json!(r.entries.iter().map(|e| json!([e.0, e.1, e.2, e.3])).collect::<Vec<_>>());
        res["skipped"] = json!(r.skipped.iter().map(|e| json!([e.0, e.1])).collect::<Vec<_>>());
        if let Some(out) = res["out"].as_str() {
            res["out_classes"] = json!(rustfmt_nightly::verif_hooks::char_classes(out).into_iter().map(|(k, _)| k).collect::<Vec<_>>());
        }
    }
    if let Some(out) = res["out"].as_str().map(|s| s.to_owned()) {
        if v["again"].as_bool().unwrap_or(false) {
            let cfg2 = fmt::config_of(&v["config"]).unwrap();
            let r2 = fmt::format_text(&out, cfg2);
            res["out2"] = json!(r2.output);
            res["flags2"] = r2.flags;
        }
        if v["nodes_out"].as_bool().unwrap_or(false) {
            let cfg3 = fmt::config_of(&v["config"]).unwrap();
            res["out_nodes"] = match rustfmt_nightly::verif_hooks::ast_nodes(&out, &cfg3) {
                Some(ns) => json!(ns.into_iter().map(|(k, lo, hi, p)| json!([k, lo, hi, p])).collect::<Vec<_>>()),
                None => Value::Null,
            };
        }
        if v["lex"].as_bool().unwrap_or(false) {
            res["in_tokens"] = toks(lex(text));
            res["out_tokens"] = toks(lex(&out));
        }
    }
    res
}

/// case: {"text": str}
pub fn run_lex(v: &Value) -> Value {
    toks(lex(v["text"].as_str().unwrap()))
}

/// case: {"text": str, "config": [[k,v]..]} -> [[kind, lo, hi, parent]..] | null
pub fn run_nodes(v: &Value) -> Value {
    let text = v["text"].as_str().unwrap();
    let cfg = match fmt::config_of(&v["config"]) {
        Ok(c) => c,
        Err(e) => return json!({"config_error": e}),
    };
    match rustfmt_nightly::verif_hooks::ast_nodes(text, &cfg) {
        Some(ns) => json!({"nodes": ns.into_iter().map(|(k, lo, hi, p)| json!([k, lo, hi, p])).collect::<Vec<_>>()}),
        None => json!({"nodes": null}),
    }
}
