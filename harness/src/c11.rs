use crate::fmt;
use rustfmt_nightly::verif_hooks::order;
use serde_json::{json, Value};
use std::cmp::Ordering;

fn to_ord(c: u8) -> Ordering {
    match c {
        0 => Ordering::Less,
        1 => Ordering::Equal,
        _ => Ordering::Greater,
    }
}

fn item_src(it: &Value) -> String {
    let k = it[0].as_u64().unwrap();
    let ident = it[1].as_str().unwrap();
    match (k, it[2].as_str()) {
        (0, _) => format!("mod {ident};\n"),
        (_, Some(orig)) => format!("extern crate {orig} as {ident};\n"),
        (_, None) => format!("extern crate {ident};\n"),
    }
}

/// {"kind":"vs","pairs":[[a,b],..]} | {"kind":"sort","names":[..]} |
/// {"kind":"items","se":"2024","items":[[k,ident,orig|null],..]} |
/// {"kind":"perms","config":[..],"texts":[..]}   (format each text)
pub fn run(v: &Value) -> Value {
    match v["kind"].as_str().unwrap() {
        "vs" => {
            let r: Vec<u8> = v["pairs"]
                .as_array()
                .unwrap()
                .iter()
                .map(|p| order::version_sort(p[0].as_str().unwrap(), p[1].as_str().unwrap()))
                .collect();
            json!({"vs": r})
        }
        "vsm" => {
            let names: Vec<&str> = v["names"].as_array().unwrap().iter().map(|s| s.as_str().unwrap()).collect();
            let m: Vec<Vec<u8>> = names
                .iter()
                .map(|a| names.iter().map(|b| order::version_sort(a, b)).collect())
                .collect();
            let mut sorted: Vec<String> = names.iter().map(|s| s.to_string()).collect();
            sorted.sort_by(|a, b| to_ord(order::version_sort(a, b)));
            json!({"matrix": m, "sorted": sorted})
        }
        "sort" => {
            let mut names: Vec<String> =
                v["names"].as_array().unwrap().iter().map(|s| s.as_str().unwrap().to_owned()).collect();
            names.sort_by(|a, b| to_ord(order::version_sort(a, b)));
            json!({"sorted": names})
        }
        "items" => {
            let items = v["items"].as_array().unwrap();
            let text: String = items.iter().map(item_src).collect();
            let cfg = match fmt::config_of(&json!([["style_edition", v["se"].as_str().unwrap()]])) {
                Ok(c) => c,
                Err(e) => return json!({"config_error": e}),
            };
            let m = order::compare_items_matrix(&text, &cfg);
            json!({"matrix": m})
        }
        "perms" => {
            let outs: Vec<Value> = v["texts"]
                .as_array()
                .unwrap()
                .iter()
                .map(|t| {
                    let cfg = fmt::config_of(&v["config"]).unwrap();
                    let r = fmt::format_text(t.as_str().unwrap(), cfg);
                    json!(r.output)
                })
                .collect();
            json!({"outs": outs})
        }
        k => json!({"error": format!("unknown kind {k}")}),
    }
}
