use rustfmt_nightly::verif_hooks as hooks;
use serde_json::{json, Value};

fn lines_json(v: Vec<(u8, String)>) -> Value {
    Value::Array(v.into_iter().map(|(k, s)| json!([k, s])).collect())
}

fn chunks_json(r: &Result<rustfmt_nightly::ModifiedLines, ()>) -> Value {
    match r {
        Ok(ml) => Value::Array(
            ml.chunks.iter().map(|c| json!([c.line_number_orig, c.lines_removed, c.lines])).collect(),
        ),
        Err(()) => Value::Null,
    }
}

/// case: {"pp": true, "chunks": [[orig, removed, [line, ..]], ..], "text": str}
/// Display of the chunks, FromStr of that, FromStr of `text` (and whether what `text` parses to is a
/// fixed point of print-then-parse); public API of the crate only, no hook
fn run_pp(v: &Value) -> Value {
    let chunks = v["chunks"]
        .as_array()
        .unwrap()
        .iter()
        .map(|c| rustfmt_nightly::ModifiedChunk {
            line_number_orig: c[0].as_u64().unwrap() as u32,
            lines_removed: c[1].as_u64().unwrap() as u32,
            lines: c[2].as_array().unwrap().iter().map(|l| l.as_str().unwrap().to_owned()).collect(),
        })
        .collect();
    let ml = rustfmt_nightly::ModifiedLines { chunks };
    let printed = format!("{}", ml);
    let reparsed: Result<rustfmt_nightly::ModifiedLines, ()> = printed.parse();
    let parsed: Result<rustfmt_nightly::ModifiedLines, ()> = v["text"].as_str().unwrap().parse();
    let fixpoint = match &parsed {
        Ok(p) => format!("{}", p).parse::<rustfmt_nightly::ModifiedLines>().as_ref() == Ok(p),
        Err(()) => true,
    };
    json!({
        "printed": printed,
        "reparsed": chunks_json(&reparsed),
        "parsed": chunks_json(&parsed),
        "fixpoint": fixpoint,
    })
}

/// case: {"a": str, "b": str, "ctx": n}
pub fn run(v: &Value) -> Value {
    if v.get("pp").and_then(|x| x.as_bool()).unwrap_or(false) {
        return run_pp(v);
    }
    let a = v["a"].as_str().unwrap();
    let b = v["b"].as_str().unwrap();
    let ctx = v["ctx"].as_u64().unwrap() as usize;
    let script = hooks::diff::diff_script(a, b);
    let mm = hooks::diff::make_diff(a, b, ctx);
    let ml = hooks::diff::modified_lines(a, b);
    let printed = format!("{}", ml);
    let reparsed: Result<rustfmt_nightly::ModifiedLines, ()> = printed.parse();
    let roundtrip = match reparsed {
        Ok(r) => r == ml,
        Err(()) => false,
    };
    let mut emitted = serde_json::Map::new();
    if v.get("emit").and_then(|x| x.as_bool()).unwrap_or(false) {
        let name = v.get("name").and_then(|x| x.as_str()).unwrap_or("src/x.rs");
        for (key, mode) in [
            ("json", rustfmt_nightly::EmitMode::Json),
            ("checkstyle", rustfmt_nightly::EmitMode::Checkstyle),
            ("modified_lines", rustfmt_nightly::EmitMode::ModifiedLines),
        ] {
            let cfg = hooks::config_with_emit_mode(mode);
            let files = vec![(
                rustfmt_nightly::FileName::Real(std::path::PathBuf::from(name)),
                a.to_owned(),
                b.to_owned(),
            )];
            let (out, res) = hooks::emit_files(&cfg, &files);
            emitted.insert(
                key.to_owned(),
                json!({"out": String::from_utf8_lossy(&out), "has_diff": res[0].clone().ok()}),
            );
        }
    }
    json!({
        "emit": emitted,
        "script": lines_json(script),
        "mm": mm.into_iter().map(|(n, o, l)| json!([n, o, lines_json(l)])).collect::<Vec<_>>(),
        "ml": ml.chunks.iter().map(|c| json!([c.line_number_orig, c.lines_removed, c.lines])).collect::<Vec<_>>(),
        "printed": printed,
        "roundtrip": roundtrip,
    })
}
