use rustfmt_nightly::verif_hooks as hooks;
use serde_json::{json, Value};

/// {"start":[w,b,a,o],"ops":[[code,arg]..]}
pub fn run(v: &Value) -> Value {
    let u = |x: &Value| x.as_u64().unwrap() as usize;
    let s = &v["start"];
    let ops: Vec<(u8, usize)> = v["ops"].as_array().unwrap().iter().map(|o| (u(&o[0]) as u8, u(&o[1]))).collect();
    let (r, ok) = hooks::shape_ops((u(&s[0]), u(&s[1]), u(&s[2]), u(&s[3])), &ops);
    json!({"shape": [r.0, r.1, r.2, r.3], "ok": ok})
}
