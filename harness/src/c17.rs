use rustfmt_nightly::verif_hooks::file_lines as fl;
use rustfmt_nightly::{FileLines, FileName, Range};
use serde_json::{json, Value};
use std::collections::HashMap;
use std::path::PathBuf;

fn name_of(v: &Value) -> FileName {
    let s = v.as_str().unwrap();
    if s == "stdin" {
        FileName::Stdin
    } else {
        FileName::Real(PathBuf::from(s))
    }
}

fn pair(v: &Value) -> (usize, usize) {
    (v[0].as_u64().unwrap() as usize, v[1].as_u64().unwrap() as usize)
}

/// case: {"files": [[name, [[lo,hi],..]],..] | null, "qfile": name, "queries": [[a,b],..], "pairs": [[[a,b],[c,d]],..]}
pub fn run(v: &Value) -> Value {
    let lines = if v["files"].is_null() {
        FileLines::default()
    } else {
        let mut m: HashMap<FileName, Vec<Range>> = HashMap::new();
        for f in v["files"].as_array().unwrap() {
            let rs = f[1]
                .as_array()
                .unwrap()
                .iter()
                .map(|r| {
                    let (a, b) = pair(r);
                    Range::new(a, b)
                })
                .collect();
            m.insert(name_of(&f[0]), rs);
        }
        FileLines::from_ranges(m)
    };
    let q = name_of(&v["qfile"]);
    let norm = fl::ranges_of(&lines, &q);
    let queries: Vec<Value> = v["queries"]
        .as_array()
        .unwrap()
        .iter()
        .map(|r| {
            let (a, b) = pair(r);
            json!([
                fl::contains_range(&lines, &q, a, b),
                fl::intersects(&lines, &q, a, b),
                fl::contains_line(&lines, &q, a)
            ])
        })
        .collect();
    let ops: Vec<Value> = v["pairs"]
        .as_array()
        .unwrap()
        .iter()
        .map(|p| {
            let r = fl::range_ops(pair(&p[0]), pair(&p[1]));
            json!([r.0, r.1, r.2, r.3, r.4.map(|(a, b)| vec![a, b])])
        })
        .collect();
    json!({"norm": norm.map(|v| v.into_iter().map(|(a,b)| vec![a,b]).collect::<Vec<_>>()), "is_all": lines.is_all(), "queries": queries, "ops": ops})
}
