use crate::fmt;
use rustfmt_nightly::verif_hooks::skip;
use serde_json::{json, Value};

fn enc(m: &skip::Meta) -> Value {
    json!([m.0, m.1, m.2.iter().map(enc).collect::<Vec<_>>()])
}

/// {"text": items with attributes, "queries": [names], "config": [..]}
pub fn run(v: &Value) -> Value {
    let cfg = match fmt::config_of(&v["config"]) {
        Ok(c) => c,
        Err(e) => return json!({"config_error": e}),
    };
    let qs: Vec<String> = v["queries"].as_array().map(|a| a.iter().map(|s| s.as_str().unwrap().to_owned()).collect()).unwrap_or_default();
    match skip::items(v["text"].as_str().unwrap(), &qs, &cfg) {
        None => json!({"items": null}),
        Some(items) => json!({"items": items.iter().map(|(c, ms, q)| json!({
            "contains_skip": c,
            "metas": ms.iter().map(|m| m.as_ref().map(enc)).collect::<Vec<_>>(),
            "queries": q.iter().map(|(a, b)| json!([a, b])).collect::<Vec<_>>(),
        })).collect::<Vec<_>>()}),
    }
}
