use crate::fmt;
use rustfmt_nightly::verif_hooks as hooks;
use serde_json::{json, Value};

fn sl(v: Vec<(u8, usize, String)>) -> Value {
    Value::Array(v.into_iter().map(|(k, o, s)| json!([k, o, s])).collect())
}

/// {"kind":"text","text":t} | {"kind":"changed","a":..,"b":..} |
/// {"kind":"rewrite","text":comment,"config":[..],"width":w,"indent":i,"block":bool}
pub fn run(v: &Value) -> Value {
    match v["kind"].as_str().unwrap() {
        "text" => {
            let t = v["text"].as_str().unwrap();
            let classes: Vec<Value> = hooks::char_classes(t).into_iter().map(|(k, c)| json!([k, c as u32])).collect();
            let ung = std::panic::catch_unwind(|| hooks::comments::ungrouped_slices(t)).ok();
            let sli = std::panic::catch_unwind(|| hooks::comments::slices(t)).ok();
            let pay = std::panic::catch_unwind(|| hooks::comments::payload(t)).ok();
            let fnc = std::panic::catch_unwind(|| hooks::comments::filter_normal_code(t)).ok();
            json!({"classes": classes, "ungrouped": ung.map(sl), "slices": sli.map(sl), "payload": pay, "filter_normal_code": fnc})
        }
        "changed" => {
            let a = v["a"].as_str().unwrap();
            let b = v["b"].as_str().unwrap();
            let r = std::panic::catch_unwind(|| hooks::comments::changed_comment_content(a, b)).ok();
            json!({"changed": r})
        }
        "rewrite" => {
            let cfg = match fmt::config_of(&v["config"]) {
                Ok(c) => c,
                Err(e) => return json!({"config_error": e}),
            };
            let t = v["text"].as_str().unwrap();
            let r = hooks::comments::rewrite_comment(
                t,
                v["block"].as_bool().unwrap_or(false),
                v["width"].as_u64().unwrap() as usize,
                v["indent"].as_u64().unwrap() as usize,
                &cfg,
            );
            let pay_in = std::panic::catch_unwind(|| hooks::comments::payload(t)).ok();
            let pay_out = r.as_ref().and_then(|o| std::panic::catch_unwind(|| hooks::comments::payload(o)).ok());
            json!({"out": r, "payload_in": pay_in, "payload_out": pay_out})
        }
        k => json!({"error": format!("unknown kind {k}")}),
    }
}
