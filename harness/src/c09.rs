use rustfmt_nightly::StyleEdition;
use serde_json::{json, Value};

/// `a <= b` for every pair of style editions, through the public PartialOrd
pub fn run(_v: &Value) -> Value {
    let all = [
        (2015u32, StyleEdition::Edition2015),
        (2018, StyleEdition::Edition2018),
        (2021, StyleEdition::Edition2021),
        (2024, StyleEdition::Edition2024),
        (2027, StyleEdition::Edition2027),
    ];
    let mut t = Vec::new();
    for (ya, a) in all.iter() {
        for (yb, b) in all.iter() {
            t.push(json!([ya, yb, a <= b]));
        }
    }
    json!({"le": t})
}
