use crate::fmt;
use rustfmt_nightly::verif_hooks::imports;
use serde_json::{json, Value};

fn enc(v: &[(Option<String>, Option<String>, bool, String)]) -> Value {
    Value::Array(v.iter().map(|(a, b, c, d)| json!([a, b, c, d])).collect())
}

/// case: {"text": "use ..;\n..", "config": [[k,v]..], "format": bool}
pub fn run(v: &Value) -> Value {
    let text = v["text"].as_str().unwrap();
    let cfg = match fmt::config_of(&v["config"]) {
        Ok(c) => c,
        Err(e) => return json!({"config_error": e}),
    };
    let p = imports::pipeline(text, &cfg);
    let mut res = json!({
        "input": p.as_ref().map(|p| enc(&p.input)),
        "regrouped": p.as_ref().map(|p| enc(&p.regrouped)),
        "groups": p.as_ref().map(|p| Value::Array(p.groups.iter().map(|g| enc(g)).collect())),
    });
    if v["format"].as_bool().unwrap_or(false) {
        let cfg2 = fmt::config_of(&v["config"]).unwrap();
        let r = fmt::format_text(text, cfg2);
        res["flags"] = r.flags;
        if let Some(out) = r.output {
            // the imports denoted by the emitted text: parse it again (no regrouping involved)
            let q = imports::pipeline(&out, &fmt::config_of(&json!([])).unwrap());
            res["out_items"] = json!(q.map(|q| enc(&q.input)));
            res["out"] = json!(out);
        }
    }
    res
}
