#![feature(rustc_private)]
extern crate rustc_driver;

use rustfmt_nightly::verif_hooks as hooks;
use serde_json::{json, Value};
use std::io::{self, BufRead, Write};

thread_local! {
    static LAST_PANIC: std::cell::RefCell<String> = std::cell::RefCell::new(String::new());
}

mod c03;
mod c04;
mod c07;
mod c08;
mod c09;
mod c10;
mod c11;
mod c12;
mod c15;
mod c16;
mod c17;
mod fmt;
mod pool;

fn main() {
    let args: Vec<String> = std::env::args().collect();
    if args.len() < 2 {
        eprintln!("usage: vh <subcommand>   (cases on stdin, one JSON per line)");
        std::process::exit(2);
    }
    let sub = args[1].as_str();
    let f: fn(&Value) -> Value = match sub {
        "c03" => c03::run,
        "c04" => c04::run,
        "c07" => c07::run,
        "c08" => c08::run,
        "c09" => c09::run,
        "c10" => c10::run,
        "c11" => c11::run,
        "c12" => c12::run,
        "c15" => c15::run,
        "fmt" => fmt::run,
        "pool" => pool::run,
        "lex" => pool::run_lex,
        "nodes" => pool::run_nodes,
        "c16" => c16::run,
        "c17" => c17::run,
        _ => {
            eprintln!("unknown subcommand {sub}");
            std::process::exit(2);
        }
    };
    // remember where the last panic happened (file:line of the innermost frame that reports a location)
    std::panic::set_hook(Box::new(|info| {
        let loc = info.location().map(|l| format!("{}:{}", l.file(), l.line())).unwrap_or_default();
        LAST_PANIC.with(|c| *c.borrow_mut() = loc);
    }));
    let stdin = io::stdin();
    // results go to the fd named by VH_OUT_FD if set (so that anything rustfmt itself
    // prints to stdout cannot corrupt the protocol), else to stdout
    let sink: Box<dyn Write> = match std::env::var("VH_OUT_FD") {
        Ok(fd) => Box::new(std::fs::OpenOptions::new().write(true).open(format!("/proc/self/fd/{fd}")).expect("VH_OUT_FD")),
        Err(_) => Box::new(io::stdout()),
    };
    let mut out = io::LineWriter::new(sink);
    for line in stdin.lock().lines() {
        let line = line.unwrap();
        if line.trim().is_empty() {
            continue;
        }
        let v: Value = serde_json::from_str(&line).expect("bad case json");
        let r = std::panic::catch_unwind(|| f(&v));
        let r = match r {
            Ok(r) => r,
            Err(e) => {
                let msg = if let Some(s) = e.downcast_ref::<String>() {
                    s.clone()
                } else if let Some(s) = e.downcast_ref::<&str>() {
                    s.to_string()
                } else {
                    "?".to_string()
                };
                let at = LAST_PANIC.with(|c| c.borrow().clone());
                json!({"panic": msg, "at": at})
            }
        };
        writeln!(out, "{}", r).unwrap();
    }
    let _ = hooks::config_with_emit_mode;
}
