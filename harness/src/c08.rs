use crate::fmt;
use rustfmt_nightly::verif_hooks as hooks;
use rustfmt_nightly::NewlineStyle;
use serde_json::{json, Value};

fn u(v: &Value) -> usize {
    v.as_u64().unwrap() as usize
}

pub fn run(v: &Value) -> Value {
    match v["kind"].as_str().unwrap() {
        "nl" => {
            let style = match v["style"].as_str().unwrap() {
                "Auto" => NewlineStyle::Auto,
                "Windows" => NewlineStyle::Windows,
                "Unix" => NewlineStyle::Unix,
                _ => NewlineStyle::Native,
            };
            json!({"out": hooks::whitespace::apply_newline_style(style, v["formatted"].as_str().unwrap(), v["raw"].as_str().unwrap())})
        }
        "vs" => {
            let cfg = fmt::config_of(&json!([["blank_lines_lower_bound", v["lo"].to_string()], ["blank_lines_upper_bound", v["hi"].to_string()]])).unwrap();
            json!({"out": hooks::whitespace::push_vertical_spaces(v["buffer"].as_str().unwrap(), u(&v["n"]), &cfg)})
        }
        "indent" => {
            let cfg = fmt::config_of(&json!([["hard_tabs", v["hard_tabs"].to_string()], ["tab_spaces", v["tab_spaces"].to_string()]])).unwrap();
            let s = hooks::whitespace::indent_to_string(u(&v["block"]), u(&v["alignment"]), v["newline"].as_bool().unwrap(), &cfg);
            let fw = hooks::whitespace::indent_from_width(u(&v["block"]) + u(&v["alignment"]), &cfg);
            json!({"out": s, "from_width": [fw.0, fw.1]})
        }
        "rtw" => {
            let t = v["text"].as_str().unwrap();
            let classes: Vec<Value> = hooks::char_classes(t).into_iter().map(|(k, c)| json!([k, c as u32])).collect();
            let cfg = fmt::config_of(&json!([])).unwrap();
            let (kept, _, _) = hooks::format_lines(t, &[], &cfg);
            json!({"out": hooks::whitespace::remove_trailing_white_spaces(t), "classes": classes, "kept": kept.chars().count()})
        }
        k => json!({"error": format!("unknown kind {k}")}),
    }
}
