//! In-process formatting of a text under a configuration given as key/value pairs.
use rustfmt_nightly::{Config, EmitMode, Input, Session, Verbosity};
use serde_json::{json, Value};

pub struct FmtOut {
    /// (line, kind, found, max) of every report entry and the ranges of lines that were not formatted
    pub entries: Vec<(usize, u8, usize, usize)>,
    pub skipped: Vec<(usize, usize)>,
    pub output: Option<String>,
    pub flags: Value,
    pub err: Option<String>,
    pub report: String,
}

pub fn config_of(v: &Value) -> Result<Config, String> {
    let mut pairs = Vec::new();
    if let Some(a) = v.as_array() {
        for p in a {
            pairs.push((p[0].as_str().unwrap().to_owned(), p[1].as_str().unwrap().to_owned()));
        }
    }
    let mut c = rustfmt_nightly::verif_hooks::config_from_pairs(&pairs)?;
    c.set().emit_mode(EmitMode::Stdout);
    c.set().verbose(Verbosity::Quiet);
    Ok(c)
}

pub fn format_text(text: &str, config: Config) -> FmtOut {
    let mut out: Vec<u8> = Vec::new();
    let (res, flags) = {
        let mut session = Session::new(config, Some(&mut out));
        let res = session.format(Input::Text(text.to_owned()));
        let flags = json!({
            "operational": session.has_operational_errors(),
            "parsing": session.has_parsing_errors(),
            "formatting": session.has_formatting_errors(),
            "check": session.has_check_errors(),
            "diff": session.has_diff(),
            "unformatted": session.has_unformatted_code_errors(),
            "no_errors": session.has_no_errors(),
        });
        (res, flags)
    };
    match res {
        Ok(report) => FmtOut {
            entries: rustfmt_nightly::verif_hooks::report_entries(&report).0.iter().map(|e| (e.1, e.2, e.3, e.4)).collect(),
            skipped: rustfmt_nightly::verif_hooks::report_entries(&report).2,
            output: Some(String::from_utf8_lossy(&out).into_owned()),
            flags,
            err: None,
            report: if report.has_warnings() { format!("{}", rustfmt_nightly::FormatReportFormatterBuilder::new(&report).build()) } else { String::new() },
        },
        Err(e) => FmtOut { entries: vec![], skipped: vec![], output: None, flags, err: Some(format!("{e}")), report: String::new() },
    }
}

/// case: {"text": str, "config": [[k,v],..]}
pub fn run(v: &Value) -> Value {
    let cfg = match config_of(&v["config"]) {
        Ok(c) => c,
        Err(e) => return json!({"config_error": e}),
    };
    let r = format_text(v["text"].as_str().unwrap(), cfg);
    json!({"out": r.output, "flags": r.flags, "err": r.err, "report": r.report})
}
